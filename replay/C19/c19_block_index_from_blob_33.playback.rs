// Concrete counterexample for harness container::versatiles::types::block_index::kani_harness::c19_block_index_from_blob_33 (property C19).
// Replay: paste into the module of the harness in an overlay copy and run
//   cargo kani playback -Z concrete-playback -p versatiles_container -- <test name>
// failed checks:
//   attempt to add with overflow @ versatiles_container/src/container/versatiles/types/block_definition.rs:79:36 in function container::versatiles::types::block_definition::BlockDefinition::from_blob
//   attempt to multiply with overflow @ versatiles_container/src/container/versatiles/types/block_definition.rs:81:46 in function container::versatiles::types::block_definition::BlockDefinition::from_blob
//   attempt to multiply with overflow @ versatiles_container/src/container/versatiles/types/block_definition.rs:81:63 in function container::versatiles::types::block_definition::BlockDefinition::from_blob
/// Test generated for harness `container::versatiles::types::block_index::kani_harness::c19_block_index_from_blob_33` 
///
/// Check for `assertion`: "attempt to add with overflow"
///
/// # Warning
///
/// Concrete playback tests combined with stubs or contracts is highly
/// experimental, and subject to change.
///
/// The original harness has stubs which are not applied to this test.
/// This may cause a mismatch of non-deterministic values if the stub
/// creates any non-deterministic value.
/// The execution path may also differ, which can be used to refine the stub
/// logic.

#[test]
fn kani_concrete_playback_c19_block_index_from_blob_33_5751559516780813197() {
    let concrete_vals: Vec<Vec<u8>> = vec![
        // 0
        vec![0],
        // 0
        vec![0],
        // 0
        vec![0],
        // 0
        vec![0],
        // 0
        vec![0],
        // 0
        vec![0],
        // 0
        vec![0],
        // 0
        vec![0],
        // 0
        vec![0],
        // 0
        vec![0],
        // 0
        vec![0],
        // 0
        vec![0],
        // 0
        vec![0],
        // 0
        vec![0],
        // 0
        vec![0],
        // 0
        vec![0],
        // 0
        vec![0],
        // 0
        vec![0],
        // 0
        vec![0],
        // 0
        vec![0],
        // 128
        vec![128],
        // 255
        vec![255],
        // 255
        vec![255],
        // 255
        vec![255],
        // 255
        vec![255],
        // 255
        vec![255],
        // 255
        vec![255],
        // 255
        vec![255],
        // 128
        vec![128],
        // 0
        vec![0],
        // 0
        vec![0],
        // 0
        vec![0],
        // 0
        vec![0],
    ];
    kani::concrete_playback_run(concrete_vals, c19_block_index_from_blob_33);
}

/// Test generated for harness `container::versatiles::types::block_index::kani_harness::c19_block_index_from_blob_33` 
///
/// Check for `assertion`: "attempt to multiply with overflow"
///
/// # Warning
///
/// Concrete playback tests combined with stubs or contracts is highly
/// experimental, and subject to change.
///
/// The original harness has stubs which are not applied to this test.
/// This may cause a mismatch of non-deterministic values if the stub
/// creates any non-deterministic value.
/// The execution path may also differ, which can be used to refine the stub
/// logic.

#[test]
fn kani_concrete_playback_c19_block_index_from_blob_33_15186095076912722071() {
    let concrete_vals: Vec<Vec<u8>> = vec![
        // 0
        vec![0],
        // 128
        vec![128],
        // 0
        vec![0],
        // 0
        vec![0],
        // 0
        vec![0],
        // 0
        vec![0],
        // 0
        vec![0],
        // 0
        vec![0],
        // 0
        vec![0],
        // 0
        vec![0],
        // 0
        vec![0],
        // 0
        vec![0],
        // 0
        vec![0],
        // 0
        vec![0],
        // 0
        vec![0],
        // 0
        vec![0],
        // 0
        vec![0],
        // 0
        vec![0],
        // 0
        vec![0],
        // 0
        vec![0],
        // 0
        vec![0],
        // 0
        vec![0],
        // 0
        vec![0],
        // 0
        vec![0],
        // 0
        vec![0],
        // 0
        vec![0],
        // 0
        vec![0],
        // 0
        vec![0],
        // 0
        vec![0],
        // 0
        vec![0],
        // 0
        vec![0],
        // 0
        vec![0],
        // 0
        vec![0],
    ];
    kani::concrete_playback_run(concrete_vals, c19_block_index_from_blob_33);
}

/// Test generated for harness `container::versatiles::types::block_index::kani_harness::c19_block_index_from_blob_33` 
///
/// Check for `assertion`: "attempt to multiply with overflow"
///
/// # Warning
///
/// Concrete playback tests combined with stubs or contracts is highly
/// experimental, and subject to change.
///
/// The original harness has stubs which are not applied to this test.
/// This may cause a mismatch of non-deterministic values if the stub
/// creates any non-deterministic value.
/// The execution path may also differ, which can be used to refine the stub
/// logic.

#[test]
fn kani_concrete_playback_c19_block_index_from_blob_33_2020095224467786181() {
    let concrete_vals: Vec<Vec<u8>> = vec![
        // 0
        vec![0],
        // 0
        vec![0],
        // 0
        vec![0],
        // 0
        vec![0],
        // 0
        vec![0],
        // 128
        vec![128],
        // 0
        vec![0],
        // 0
        vec![0],
        // 0
        vec![0],
        // 0
        vec![0],
        // 0
        vec![0],
        // 0
        vec![0],
        // 0
        vec![0],
        // 0
        vec![0],
        // 0
        vec![0],
        // 0
        vec![0],
        // 0
        vec![0],
        // 0
        vec![0],
        // 0
        vec![0],
        // 0
        vec![0],
        // 0
        vec![0],
        // 0
        vec![0],
        // 0
        vec![0],
        // 0
        vec![0],
        // 0
        vec![0],
        // 0
        vec![0],
        // 0
        vec![0],
        // 0
        vec![0],
        // 0
        vec![0],
        // 0
        vec![0],
        // 0
        vec![0],
        // 0
        vec![0],
        // 0
        vec![0],
    ];
    kani::concrete_playback_run(concrete_vals, c19_block_index_from_blob_33);
}

/// Test generated for harness `container::versatiles::types::block_index::kani_harness::c19_block_index_from_blob_33` 
///
/// Check for `cover`: "cover condition: good || N % 33 != 0"
///
/// # Warning
///
/// Concrete playback tests combined with stubs or contracts is highly
/// experimental, and subject to change.
///
/// The original harness has stubs which are not applied to this test.
/// This may cause a mismatch of non-deterministic values if the stub
/// creates any non-deterministic value.
/// The execution path may also differ, which can be used to refine the stub
/// logic.

#[test]
fn kani_concrete_playback_c19_block_index_from_blob_33_2346840666188876149() {
    let concrete_vals: Vec<Vec<u8>> = vec![
        // 0
        vec![0],
        // 0
        vec![0],
        // 0
        vec![0],
        // 0
        vec![0],
        // 0
        vec![0],
        // 0
        vec![0],
        // 0
        vec![0],
        // 0
        vec![0],
        // 0
        vec![0],
        // 0
        vec![0],
        // 0
        vec![0],
        // 0
        vec![0],
        // 0
        vec![0],
        // 0
        vec![0],
        // 0
        vec![0],
        // 0
        vec![0],
        // 0
        vec![0],
        // 0
        vec![0],
        // 0
        vec![0],
        // 0
        vec![0],
        // 0
        vec![0],
        // 0
        vec![0],
        // 0
        vec![0],
        // 0
        vec![0],
        // 0
        vec![0],
        // 0
        vec![0],
        // 0
        vec![0],
        // 0
        vec![0],
        // 0
        vec![0],
        // 0
        vec![0],
        // 0
        vec![0],
        // 0
        vec![0],
        // 0
        vec![0],
    ];
    kani::concrete_playback_run(concrete_vals, c19_block_index_from_blob_33);
}

