// Concrete counterexample for harness container::pmtiles::types::entries_v3::kani_harness::c19_entries_v3_count1_4 (property C19).
// Replay: paste into the module of the harness in an overlay copy and run
//   cargo kani playback -Z concrete-playback -p versatiles_container -- <test name>
// failed checks:
//   attempt to subtract with overflow @ versatiles_container/src/container/pmtiles/types/entries_v3.rs:65:31 in function container::pmtiles::types::entries_v3::EntriesV3::from_blob
/// Test generated for harness `container::pmtiles::types::entries_v3::kani_harness::c19_entries_v3_count1_4` 
///
/// Check for `cover`: "some input decodes"
///
/// # Warning
///
/// Concrete playback tests combined with stubs or contracts is highly
/// experimental, and subject to change.
///
/// The original harness has stubs which are not applied to this test.
/// This may cause a mismatch of non-deterministic values if the stub
/// creates any non-deterministic value.
/// The execution path may also differ, which can be used to refine the stub
/// logic.

#[test]
fn kani_concrete_playback_c19_entries_v3_count1_4_9982169112505499521() {
    let concrete_vals: Vec<Vec<u8>> = vec![
        // 1
        vec![1],
        // 0
        vec![0],
        // 0
        vec![0],
        // 1
        vec![1],
    ];
    kani::concrete_playback_run(concrete_vals, c19_entries_v3_count1_4);
}

/// Test generated for harness `container::pmtiles::types::entries_v3::kani_harness::c19_entries_v3_count1_4` 
///
/// Check for `cover`: "some input is rejected"
///
/// # Warning
///
/// Concrete playback tests combined with stubs or contracts is highly
/// experimental, and subject to change.
///
/// The original harness has stubs which are not applied to this test.
/// This may cause a mismatch of non-deterministic values if the stub
/// creates any non-deterministic value.
/// The execution path may also differ, which can be used to refine the stub
/// logic.

#[test]
fn kani_concrete_playback_c19_entries_v3_count1_4_9695463326833159822() {
    let concrete_vals: Vec<Vec<u8>> = vec![
        // 255
        vec![255],
        // 255
        vec![255],
        // 255
        vec![255],
        // 255
        vec![255],
    ];
    kani::concrete_playback_run(concrete_vals, c19_entries_v3_count1_4);
}

/// Test generated for harness `container::pmtiles::types::entries_v3::kani_harness::c19_entries_v3_count1_4` 
///
/// Check for `assertion`: "attempt to subtract with overflow"
///
/// # Warning
///
/// Concrete playback tests combined with stubs or contracts is highly
/// experimental, and subject to change.
///
/// The original harness has stubs which are not applied to this test.
/// This may cause a mismatch of non-deterministic values if the stub
/// creates any non-deterministic value.
/// The execution path may also differ, which can be used to refine the stub
/// logic.

#[test]
fn kani_concrete_playback_c19_entries_v3_count1_4_2682446400675755609() {
    let concrete_vals: Vec<Vec<u8>> = vec![
        // 0
        vec![0],
        // 0
        vec![0],
        // 0
        vec![0],
        // 0
        vec![0],
    ];
    kani::concrete_playback_run(concrete_vals, c19_entries_v3_count1_4);
}

