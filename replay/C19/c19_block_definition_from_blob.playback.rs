// Concrete counterexample for harness container::versatiles::types::block_definition::kani_harness::c19_block_definition_from_blob (property C19).
// Replay: paste into the module of the harness in an overlay copy and run
//   cargo kani playback -Z concrete-playback -p versatiles_container -- <test name>
// failed checks:
//   attempt to add with overflow @ versatiles_container/src/container/versatiles/types/block_definition.rs:79:36 in function container::versatiles::types::block_definition::BlockDefinition::from_blob
//   attempt to multiply with overflow @ versatiles_container/src/container/versatiles/types/block_definition.rs:81:46 in function container::versatiles::types::block_definition::BlockDefinition::from_blob
//   attempt to multiply with overflow @ versatiles_container/src/container/versatiles/types/block_definition.rs:81:63 in function container::versatiles::types::block_definition::BlockDefinition::from_blob
/// Test generated for harness `container::versatiles::types::block_definition::kani_harness::c19_block_definition_from_blob` 
///
/// Check for `cover`: "some 33-byte string is a valid block definition"
///
/// # Warning
///
/// Concrete playback tests combined with stubs or contracts is highly
/// experimental, and subject to change.
///
/// The original harness has stubs which are not applied to this test.
/// This may cause a mismatch of non-deterministic values if the stub
/// creates any non-deterministic value.
/// The execution path may also differ, which can be used to refine the stub
/// logic.

#[test]
fn kani_concrete_playback_c19_block_definition_from_blob_5030335146671104831() {
    let concrete_vals: Vec<Vec<u8>> = vec![
        // 0
        vec![0],
        // 0
        vec![0],
        // 0
        vec![0],
        // 0
        vec![0],
        // 0
        vec![0],
        // 0
        vec![0],
        // 0
        vec![0],
        // 0
        vec![0],
        // 0
        vec![0],
        // 0
        vec![0],
        // 0
        vec![0],
        // 0
        vec![0],
        // 0
        vec![0],
        // 191
        vec![191],
        // 0
        vec![0],
        // 255
        vec![255],
        // 0
        vec![0],
        // 255
        vec![255],
        // 255
        vec![255],
        // 255
        vec![255],
        // 0
        vec![0],
        // 63
        vec![63],
        // 255
        vec![255],
        // 255
        vec![255],
        // 255
        vec![255],
        // 255
        vec![255],
        // 255
        vec![255],
        // 255
        vec![255],
        // 255
        vec![255],
        // 255
        vec![255],
        // 255
        vec![255],
        // 255
        vec![255],
        // 255
        vec![255],
    ];
    kani::concrete_playback_run(concrete_vals, c19_block_definition_from_blob);
}

/// Test generated for harness `container::versatiles::types::block_definition::kani_harness::c19_block_definition_from_blob` 
///
/// Check for `cover`: "some 33-byte string is rejected"
///
/// # Warning
///
/// Concrete playback tests combined with stubs or contracts is highly
/// experimental, and subject to change.
///
/// The original harness has stubs which are not applied to this test.
/// This may cause a mismatch of non-deterministic values if the stub
/// creates any non-deterministic value.
/// The execution path may also differ, which can be used to refine the stub
/// logic.

#[test]
fn kani_concrete_playback_c19_block_definition_from_blob_6640339567194588213() {
    let concrete_vals: Vec<Vec<u8>> = vec![
        // 11
        vec![11],
        // 0
        vec![0],
        // 255
        vec![255],
        // 255
        vec![255],
        // 255
        vec![255],
        // 0
        vec![0],
        // 0
        vec![0],
        // 0
        vec![0],
        // 7
        vec![7],
        // 255
        vec![255],
        // 255
        vec![255],
        // 255
        vec![255],
        // 255
        vec![255],
        // 254
        vec![254],
        // 1
        vec![1],
        // 255
        vec![255],
        // 255
        vec![255],
        // 255
        vec![255],
        // 255
        vec![255],
        // 255
        vec![255],
        // 255
        vec![255],
        // 0
        vec![0],
        // 255
        vec![255],
        // 255
        vec![255],
        // 255
        vec![255],
        // 255
        vec![255],
        // 255
        vec![255],
        // 255
        vec![255],
        // 255
        vec![255],
        // 255
        vec![255],
        // 255
        vec![255],
        // 255
        vec![255],
        // 255
        vec![255],
    ];
    kani::concrete_playback_run(concrete_vals, c19_block_definition_from_blob);
}

/// Test generated for harness `container::versatiles::types::block_definition::kani_harness::c19_block_definition_from_blob` 
///
/// Check for `assertion`: "attempt to add with overflow"
///
/// # Warning
///
/// Concrete playback tests combined with stubs or contracts is highly
/// experimental, and subject to change.
///
/// The original harness has stubs which are not applied to this test.
/// This may cause a mismatch of non-deterministic values if the stub
/// creates any non-deterministic value.
/// The execution path may also differ, which can be used to refine the stub
/// logic.

#[test]
fn kani_concrete_playback_c19_block_definition_from_blob_12886949838630002007() {
    let concrete_vals: Vec<Vec<u8>> = vec![
        // 0
        vec![0],
        // 1
        vec![1],
        // 0
        vec![0],
        // 0
        vec![0],
        // 0
        vec![0],
        // 1
        vec![1],
        // 0
        vec![0],
        // 0
        vec![0],
        // 0
        vec![0],
        // 0
        vec![0],
        // 0
        vec![0],
        // 0
        vec![0],
        // 0
        vec![0],
        // 128
        vec![128],
        // 0
        vec![0],
        // 0
        vec![0],
        // 0
        vec![0],
        // 0
        vec![0],
        // 0
        vec![0],
        // 0
        vec![0],
        // 0
        vec![0],
        // 128
        vec![128],
        // 0
        vec![0],
        // 0
        vec![0],
        // 0
        vec![0],
        // 0
        vec![0],
        // 0
        vec![0],
        // 0
        vec![0],
        // 0
        vec![0],
        // 0
        vec![0],
        // 0
        vec![0],
        // 0
        vec![0],
        // 0
        vec![0],
    ];
    kani::concrete_playback_run(concrete_vals, c19_block_definition_from_blob);
}

/// Test generated for harness `container::versatiles::types::block_definition::kani_harness::c19_block_definition_from_blob` 
///
/// Check for `assertion`: "attempt to multiply with overflow"
///
/// # Warning
///
/// Concrete playback tests combined with stubs or contracts is highly
/// experimental, and subject to change.
///
/// The original harness has stubs which are not applied to this test.
/// This may cause a mismatch of non-deterministic values if the stub
/// creates any non-deterministic value.
/// The execution path may also differ, which can be used to refine the stub
/// logic.

#[test]
fn kani_concrete_playback_c19_block_definition_from_blob_6263882362952541270() {
    let concrete_vals: Vec<Vec<u8>> = vec![
        // 11
        vec![11],
        // 255
        vec![255],
        // 255
        vec![255],
        // 255
        vec![255],
        // 255
        vec![255],
        // 0
        vec![0],
        // 0
        vec![0],
        // 0
        vec![0],
        // 7
        vec![7],
        // 255
        vec![255],
        // 255
        vec![255],
        // 255
        vec![255],
        // 255
        vec![255],
        // 254
        vec![254],
        // 1
        vec![1],
        // 255
        vec![255],
        // 255
        vec![255],
        // 255
        vec![255],
        // 255
        vec![255],
        // 255
        vec![255],
        // 255
        vec![255],
        // 0
        vec![0],
        // 255
        vec![255],
        // 255
        vec![255],
        // 255
        vec![255],
        // 255
        vec![255],
        // 255
        vec![255],
        // 255
        vec![255],
        // 255
        vec![255],
        // 255
        vec![255],
        // 255
        vec![255],
        // 255
        vec![255],
        // 255
        vec![255],
    ];
    kani::concrete_playback_run(concrete_vals, c19_block_definition_from_blob);
}

/// Test generated for harness `container::versatiles::types::block_definition::kani_harness::c19_block_definition_from_blob` 
///
/// Check for `assertion`: "attempt to multiply with overflow"
///
/// # Warning
///
/// Concrete playback tests combined with stubs or contracts is highly
/// experimental, and subject to change.
///
/// The original harness has stubs which are not applied to this test.
/// This may cause a mismatch of non-deterministic values if the stub
/// creates any non-deterministic value.
/// The execution path may also differ, which can be used to refine the stub
/// logic.

#[test]
fn kani_concrete_playback_c19_block_definition_from_blob_4401915467633277711() {
    let concrete_vals: Vec<Vec<u8>> = vec![
        // 11
        vec![11],
        // 0
        vec![0],
        // 255
        vec![255],
        // 255
        vec![255],
        // 255
        vec![255],
        // 255
        vec![255],
        // 0
        vec![0],
        // 0
        vec![0],
        // 7
        vec![7],
        // 255
        vec![255],
        // 255
        vec![255],
        // 255
        vec![255],
        // 255
        vec![255],
        // 254
        vec![254],
        // 1
        vec![1],
        // 255
        vec![255],
        // 255
        vec![255],
        // 255
        vec![255],
        // 255
        vec![255],
        // 255
        vec![255],
        // 255
        vec![255],
        // 0
        vec![0],
        // 255
        vec![255],
        // 255
        vec![255],
        // 255
        vec![255],
        // 255
        vec![255],
        // 255
        vec![255],
        // 255
        vec![255],
        // 255
        vec![255],
        // 255
        vec![255],
        // 255
        vec![255],
        // 255
        vec![255],
        // 255
        vec![255],
    ];
    kani::concrete_playback_run(concrete_vals, c19_block_definition_from_blob);
}

