// Concrete counterexample for harness verif_kani::c19::c19_pbf_blob_4 (property C19).
// Replay: paste into the module of the harness in an overlay copy and run
//   cargo kani playback -Z concrete-playback -p versatiles_core -- <test name>
// failed checks:
//   "allocation out of proportion to the input size (announced length is trusted)" @ versatiles_core/src/verif_kani/stubs.rs:62:2 in function std::vec::from_elem::<u8>
/// Test generated for harness `verif_kani::c19::c19_pbf_blob_4` 
///
/// Check for `assertion`: ""allocation out of proportion to the input size (announced length is trusted)""
///
/// # Warning
///
/// Concrete playback tests combined with stubs or contracts is highly
/// experimental, and subject to change.
///
/// The original harness has stubs which are not applied to this test.
/// This may cause a mismatch of non-deterministic values if the stub
/// creates any non-deterministic value.
/// The execution path may also differ, which can be used to refine the stub
/// logic.

#[test]
fn kani_concrete_playback_c19_pbf_blob_4_6997650319466915885() {
    let concrete_vals: Vec<Vec<u8>> = vec![
        // 128
        vec![128],
        // 128
        vec![128],
        // 128
        vec![128],
        // 8
        vec![8],
    ];
    kani::concrete_playback_run(concrete_vals, c19_pbf_blob_4);
}

/// Test generated for harness `verif_kani::c19::c19_pbf_blob_4` 
///
/// Check for `cover`: "some input decodes"
///
/// # Warning
///
/// Concrete playback tests combined with stubs or contracts is highly
/// experimental, and subject to change.
///
/// The original harness has stubs which are not applied to this test.
/// This may cause a mismatch of non-deterministic values if the stub
/// creates any non-deterministic value.
/// The execution path may also differ, which can be used to refine the stub
/// logic.

#[test]
fn kani_concrete_playback_c19_pbf_blob_4_2197362163698373307() {
    let concrete_vals: Vec<Vec<u8>> = vec![
        // 128
        vec![128],
        // 128
        vec![128],
        // 128
        vec![128],
        // 0
        vec![0],
    ];
    kani::concrete_playback_run(concrete_vals, c19_pbf_blob_4);
}

/// Test generated for harness `verif_kani::c19::c19_pbf_blob_4` 
///
/// Check for `cover`: "some input is rejected"
///
/// # Warning
///
/// Concrete playback tests combined with stubs or contracts is highly
/// experimental, and subject to change.
///
/// The original harness has stubs which are not applied to this test.
/// This may cause a mismatch of non-deterministic values if the stub
/// creates any non-deterministic value.
/// The execution path may also differ, which can be used to refine the stub
/// logic.

#[test]
fn kani_concrete_playback_c19_pbf_blob_4_17982261067311863981() {
    let concrete_vals: Vec<Vec<u8>> = vec![
        // 255
        vec![255],
        // 255
        vec![255],
        // 255
        vec![255],
        // 255
        vec![255],
    ];
    kani::concrete_playback_run(concrete_vals, c19_pbf_blob_4);
}

