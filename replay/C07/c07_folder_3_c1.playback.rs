// Concrete counterexample for harness tools::server::sources::static_source_folder::kani_harness::c07_folder_3_c1 (property C07).
// Replay: paste into the module of the harness in an overlay copy and run
//   cargo kani playback -Z concrete-playback -p verif_server -- <test name>
// failed checks:
//   "File::open on a path that resolves outside the configured root" @ verif_server/src/verif_kani/pathmodel.rs:169:2 in function std::fs::File::open::<&std::path::PathBuf>
/// Test generated for harness `tools::server::sources::static_source_folder::kani_harness::c07_folder_3_c1` 
///
/// Check for `assertion`: ""File::open on a path that resolves outside the configured root""
///
/// # Warning
///
/// Concrete playback tests combined with stubs or contracts is highly
/// experimental, and subject to change.
///
/// The original harness has stubs which are not applied to this test.
/// This may cause a mismatch of non-deterministic values if the stub
/// creates any non-deterministic value.
/// The execution path may also differ, which can be used to refine the stub
/// logic.

#[test]
fn kani_concrete_playback_c07_folder_3_c1_2535190406752752167() {
    let concrete_vals: Vec<Vec<u8>> = vec![
        // 1ul
        vec![1, 0, 0, 0, 0, 0, 0, 0],
        // 0ul
        vec![0, 0, 0, 0, 0, 0, 0, 0],
    ];
    kani::concrete_playback_run(concrete_vals, c07_folder_3_c1);
}

