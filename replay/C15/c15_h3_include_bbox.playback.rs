// Concrete counterexample for harness verif_kani::c15::c15_h3_include_bbox (property C15).
// Replay: paste into the module of the harness in an overlay copy and run
//   cargo kani playback -Z concrete-playback -p versatiles_core -- <test name>
// failed checks:
//   assertion failed: same_set(&c, &b) @ versatiles_core/src/verif_kani/c15.rs:110:22 in function verif_kani::c15::c15_h3_include_bbox
/// Test generated for harness `verif_kani::c15::c15_h3_include_bbox` 
///
/// Check for `assertion`: "assertion failed: same_set(&c, &b)"
///
/// # Warning
///
/// Concrete playback tests combined with stubs or contracts is highly
/// experimental, and subject to change.
///
/// The original harness has stubs which are not applied to this test.
/// This may cause a mismatch of non-deterministic values if the stub
/// creates any non-deterministic value.
/// The execution path may also differ, which can be used to refine the stub
/// logic.

#[test]
fn kani_concrete_playback_c15_h3_include_bbox_14848937134216931789() {
    let concrete_vals: Vec<Vec<u8>> = vec![
        // 31
        vec![31],
        // 2147483647
        vec![255, 255, 255, 127],
        // 9
        vec![9, 0, 0, 0],
        // 2147481598
        vec![254, 247, 255, 127],
        // 2147483631
        vec![239, 255, 255, 127],
        // 31
        vec![31],
        // 2147483635
        vec![243, 255, 255, 127],
        // 536870943
        vec![31, 0, 0, 32],
        // 2147483647
        vec![255, 255, 255, 127],
        // 671088655
        vec![15, 0, 0, 40],
        // 2
        vec![2, 0, 0, 0],
        // 9
        vec![9, 0, 0, 0],
    ];
    kani::concrete_playback_run(concrete_vals, c15_h3_include_bbox);
}

/// Test generated for harness `verif_kani::c15::c15_h3_include_bbox` 
///
/// Check for `cover`: "cover condition: a.level == b.level && !a.is_empty() && !b.is_empty() && c != a && c != b"
///
/// # Warning
///
/// Concrete playback tests combined with stubs or contracts is highly
/// experimental, and subject to change.
///
/// The original harness has stubs which are not applied to this test.
/// This may cause a mismatch of non-deterministic values if the stub
/// creates any non-deterministic value.
/// The execution path may also differ, which can be used to refine the stub
/// logic.

#[test]
fn kani_concrete_playback_c15_h3_include_bbox_18405535327877927778() {
    let concrete_vals: Vec<Vec<u8>> = vec![
        // 31
        vec![31],
        // 538443758
        vec![238, 255, 23, 32],
        // 1073709055
        vec![255, 127, 255, 63],
        // 2147483647
        vec![255, 255, 255, 127],
        // 2147450879
        vec![255, 127, 255, 127],
        // 31
        vec![31],
        // 524270
        vec![238, 255, 7, 0],
        // 939491323
        vec![251, 127, 255, 55],
        // 2147483646
        vec![254, 255, 255, 127],
        // 1073741823
        vec![255, 255, 255, 63],
        // 3758096383
        vec![255, 255, 255, 223],
        // 1073709054
        vec![254, 127, 255, 63],
    ];
    kani::concrete_playback_run(concrete_vals, c15_h3_include_bbox);
}

/// Test generated for harness `verif_kani::c15::c15_h3_include_bbox` 
///
/// Check for `cover`: "cover condition: a.level == b.level && a.is_empty() && !b.is_empty()"
///
/// # Warning
///
/// Concrete playback tests combined with stubs or contracts is highly
/// experimental, and subject to change.
///
/// The original harness has stubs which are not applied to this test.
/// This may cause a mismatch of non-deterministic values if the stub
/// creates any non-deterministic value.
/// The execution path may also differ, which can be used to refine the stub
/// logic.

#[test]
fn kani_concrete_playback_c15_h3_include_bbox_752850610830705761() {
    let concrete_vals: Vec<Vec<u8>> = vec![
        // 30
        vec![30],
        // 1053335529
        vec![233, 159, 200, 62],
        // 50594280
        vec![232, 1, 4, 3],
        // 1053335184
        vec![144, 158, 200, 62],
        // 67076341
        vec![245, 128, 255, 3],
        // 30
        vec![30],
        // 1053302601
        vec![73, 31, 200, 62],
        // 50594280
        vec![232, 1, 4, 3],
        // 1053400209
        vec![145, 156, 201, 62],
        // 67076349
        vec![253, 128, 255, 3],
        // 1060372564
        vec![84, 0, 52, 63],
        // 50594278
        vec![230, 1, 4, 3],
    ];
    kani::concrete_playback_run(concrete_vals, c15_h3_include_bbox);
}

