// Concrete counterexample for harness verif_kani::c15geo::c15_h13_geo_y_z3 (property C15).
// Replay: paste into the module of the harness in an overlay copy and run
//   cargo kani playback -Z concrete-playback -p versatiles_core -- <test name>
// failed checks:
//   "a valid geographic box is rejected" @ versatiles_core/src/verif_kani/c15geo.rs:35:2 in function verif_kani::c15geo::cover_y::<3>
/// Test generated for harness `verif_kani::c15geo::c15_h13_geo_y_z3` 
///
/// Check for `assertion`: ""a valid geographic box is rejected""
///
/// # Warning
///
/// Concrete playback tests combined with stubs or contracts is highly
/// experimental, and subject to change.
///
/// The original harness has stubs which are not applied to this test.
/// This may cause a mismatch of non-deterministic values if the stub
/// creates any non-deterministic value.
/// The execution path may also differ, which can be used to refine the stub
/// logic.

#[test]
fn kani_concrete_playback_c15_h13_geo_y_z3_12741180265724341541() {
    let concrete_vals: Vec<Vec<u8>> = vec![
        // -3.983979e-308
        vec![243, 189, 194, 31, 220, 165, 28, 128],
        // 2
        vec![180, 197, 255, 233, 255, 255, 255, 63],
        // 2
        vec![0, 0, 0, 0, 0, 0, 0, 64],
        // 7.853982
        vec![62, 56, 85, 41, 122, 106, 31, 64],
        // 1
        vec![0, 1, 0, 0, 0, 0, 240, 63],
        // 1.564065e-308
        vec![84, 4, 84, 134, 48, 63, 11, 0],
    ];
    kani::concrete_playback_run(concrete_vals, c15_h13_geo_y_z3);
}

