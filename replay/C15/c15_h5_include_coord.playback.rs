// Concrete counterexample for harness verif_kani::c15::c15_h5_include_coord (property C15).
// Replay: paste into the module of the harness in an overlay copy and run
//   cargo kani playback -Z concrete-playback -p versatiles_core -- <test name>
// failed checks:
//   assertion failed: c.x_min == q.x && c.x_max == q.x && c.y_min == q.y && c.y_max == q.y @ versatiles_core/src/verif_kani/c15.rs:174:3 in function verif_kani::c15::c15_h5_include_coord
/// Test generated for harness `verif_kani::c15::c15_h5_include_coord` 
///
/// Check for `assertion`: "assertion failed: c.x_min == q.x && c.x_max == q.x && c.y_min == q.y && c.y_max == q.y"
///
/// # Warning
///
/// Concrete playback tests combined with stubs or contracts is highly
/// experimental, and subject to change.
///
/// The original harness has stubs which are not applied to this test.
/// This may cause a mismatch of non-deterministic values if the stub
/// creates any non-deterministic value.
/// The execution path may also differ, which can be used to refine the stub
/// logic.

#[test]
fn kani_concrete_playback_c15_h5_include_coord_11358271262210222443() {
    let concrete_vals: Vec<Vec<u8>> = vec![
        // 31
        vec![31],
        // 536870907
        vec![251, 255, 255, 31],
        // 0
        vec![0, 0, 0, 0],
        // 536870906
        vec![250, 255, 255, 31],
        // 1073741825
        vec![1, 0, 0, 64],
        // 536870904
        vec![248, 255, 255, 31],
        // 0
        vec![0, 0, 0, 0],
        // 536870911
        vec![255, 255, 255, 31],
        // 1073741824
        vec![0, 0, 0, 64],
    ];
    kani::concrete_playback_run(concrete_vals, c15_h5_include_coord);
}

/// Test generated for harness `verif_kani::c15::c15_h5_include_coord` 
///
/// Check for `cover`: "cover condition: a.is_empty() && a.x_min <= a.x_max"
///
/// # Warning
///
/// Concrete playback tests combined with stubs or contracts is highly
/// experimental, and subject to change.
///
/// The original harness has stubs which are not applied to this test.
/// This may cause a mismatch of non-deterministic values if the stub
/// creates any non-deterministic value.
/// The execution path may also differ, which can be used to refine the stub
/// logic.

#[test]
fn kani_concrete_playback_c15_h5_include_coord_9555654370122238319() {
    let concrete_vals: Vec<Vec<u8>> = vec![
        // 31
        vec![31],
        // 1449335163
        vec![123, 25, 99, 86],
        // 9117715
        vec![19, 32, 139, 0],
        // 1449335163
        vec![123, 25, 99, 86],
        // 9109522
        vec![18, 0, 139, 0],
        // 1449335163
        vec![123, 25, 99, 86],
        // 9117715
        vec![19, 32, 139, 0],
        // 1449335163
        vec![123, 25, 99, 86],
        // 9371667
        vec![19, 0, 143, 0],
        // 31
        vec![31],
    ];
    kani::concrete_playback_run(concrete_vals, c15_h5_include_coord);
}

/// Test generated for harness `verif_kani::c15::c15_h5_include_coord` 
///
/// Check for `cover`: "cover condition: !a.is_empty() && !inb(&a, &q)"
///
/// # Warning
///
/// Concrete playback tests combined with stubs or contracts is highly
/// experimental, and subject to change.
///
/// The original harness has stubs which are not applied to this test.
/// This may cause a mismatch of non-deterministic values if the stub
/// creates any non-deterministic value.
/// The execution path may also differ, which can be used to refine the stub
/// logic.

#[test]
fn kani_concrete_playback_c15_h5_include_coord_2796997882102669591() {
    let concrete_vals: Vec<Vec<u8>> = vec![
        // 31
        vec![31],
        // 536870907
        vec![251, 255, 255, 31],
        // 1073741822
        vec![254, 255, 255, 63],
        // 536870910
        vec![254, 255, 255, 31],
        // 1073741825
        vec![1, 0, 0, 64],
        // 536870906
        vec![250, 255, 255, 31],
        // 1073741825
        vec![1, 0, 0, 64],
        // 536870911
        vec![255, 255, 255, 31],
        // 1073741824
        vec![0, 0, 0, 64],
        // 224
        vec![224],
    ];
    kani::concrete_playback_run(concrete_vals, c15_h5_include_coord);
}

