// Concrete counterexample for harness verif_kani::c15geo::c15_h12_geo_x_z3 (property C15).
// Replay: paste into the module of the harness in an overlay copy and run
//   cargo kani playback -Z concrete-playback -p versatiles_core -- <test name>
// failed checks:
//   "a valid geographic box is rejected" @ versatiles_core/src/verif_kani/c15geo.rs:11:2 in function verif_kani::c15geo::cover_x::<3>
/// Test generated for harness `verif_kani::c15geo::c15_h12_geo_x_z3` 
///
/// Check for `assertion`: ""a valid geographic box is rejected""
///
/// # Warning
///
/// Concrete playback tests combined with stubs or contracts is highly
/// experimental, and subject to change.
///
/// The original harness has stubs which are not applied to this test.
/// This may cause a mismatch of non-deterministic values if the stub
/// creates any non-deterministic value.
/// The execution path may also differ, which can be used to refine the stub
/// logic.

#[test]
fn kani_concrete_playback_c15_h12_geo_x_z3_8749306619915806474() {
    let concrete_vals: Vec<Vec<u8>> = vec![
        // -180
        vec![0, 0, 0, 0, 0, 128, 102, 192],
        // -2.52736
        vec![0, 32, 15, 176, 8, 56, 4, 192],
        // 1
        vec![0, 0, 0, 0, 0, 0, 240, 63],
        // 0
        vec![0, 0, 0, 0, 0, 0, 0, 0],
        // 1
        vec![0, 0, 0, 0, 0, 0, 240, 63],
        // -0
        vec![0, 0, 0, 0, 0, 0, 0, 128],
    ];
    kani::concrete_playback_run(concrete_vals, c15_h12_geo_x_z3);
}

/// Test generated for harness `verif_kani::c15geo::c15_h12_geo_x_z3` 
///
/// Check for `cover`: "cover condition: west == east"
///
/// # Warning
///
/// Concrete playback tests combined with stubs or contracts is highly
/// experimental, and subject to change.
///
/// The original harness has stubs which are not applied to this test.
/// This may cause a mismatch of non-deterministic values if the stub
/// creates any non-deterministic value.
/// The execution path may also differ, which can be used to refine the stub
/// logic.

#[test]
fn kani_concrete_playback_c15_h12_geo_x_z3_15474128419173617600() {
    let concrete_vals: Vec<Vec<u8>> = vec![
        // -180
        vec![0, 0, 0, 0, 0, 128, 102, 192],
        // -180
        vec![0, 0, 0, 0, 0, 128, 102, 192],
        // 1
        vec![2, 0, 0, 0, 0, 0, 240, 63],
        // 1.178097
        vec![210, 33, 51, 127, 124, 217, 242, 63],
        // 1
        vec![2, 0, 0, 0, 0, 0, 240, 63],
        // 1.178097
        vec![210, 33, 51, 127, 124, 217, 242, 63],
    ];
    kani::concrete_playback_run(concrete_vals, c15_h12_geo_x_z3);
}

/// Test generated for harness `verif_kani::c15geo::c15_h12_geo_x_z3` 
///
/// Check for `cover`: "cover condition: b.x_min != b.x_max"
///
/// # Warning
///
/// Concrete playback tests combined with stubs or contracts is highly
/// experimental, and subject to change.
///
/// The original harness has stubs which are not applied to this test.
/// This may cause a mismatch of non-deterministic values if the stub
/// creates any non-deterministic value.
/// The execution path may also differ, which can be used to refine the stub
/// logic.

#[test]
fn kani_concrete_playback_c15_h12_geo_x_z3_10266786576494437857() {
    let concrete_vals: Vec<Vec<u8>> = vec![
        // -179.998303
        vec![0, 0, 128, 25, 242, 127, 102, 192],
        // 2.6875
        vec![0, 0, 0, 0, 0, 128, 5, 64],
        // 1
        vec![2, 0, 0, 0, 0, 0, 240, 63],
        // 1.178097
        vec![210, 33, 51, 127, 124, 217, 242, 63],
        // 1
        vec![2, 0, 0, 0, 0, 0, 240, 63],
        // 1.178097
        vec![210, 33, 51, 127, 124, 217, 242, 63],
    ];
    kani::concrete_playback_run(concrete_vals, c15_h12_geo_x_z3);
}

