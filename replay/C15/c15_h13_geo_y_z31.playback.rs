// Concrete counterexample for harness verif_kani::c15geo::c15_h13_geo_y_z31 (property C15).
// Replay: paste into the module of the harness in an overlay copy and run
//   cargo kani playback -Z concrete-playback -p versatiles_core -- <test name>
// failed checks:
//   "a valid geographic box is rejected" @ versatiles_core/src/verif_kani/c15geo.rs:35:2 in function verif_kani::c15geo::cover_y::<31>
/// Test generated for harness `verif_kani::c15geo::c15_h13_geo_y_z31` 
///
/// Check for `assertion`: ""a valid geographic box is rejected""
///
/// # Warning
///
/// Concrete playback tests combined with stubs or contracts is highly
/// experimental, and subject to change.
///
/// The original harness has stubs which are not applied to this test.
/// This may cause a mismatch of non-deterministic values if the stub
/// creates any non-deterministic value.
/// The execution path may also differ, which can be used to refine the stub
/// logic.

#[test]
fn kani_concrete_playback_c15_h13_geo_y_z31_10833121774069407999() {
    let concrete_vals: Vec<Vec<u8>> = vec![
        // -2.121287e-308
        vec![138, 153, 4, 52, 242, 64, 15, 128],
        // -3.476668e-309
        vec![219, 188, 6, 133, 255, 127, 2, 128],
        // 2
        vec![255, 255, 255, 255, 255, 255, 255, 63],
        // 9.881313e-324
        vec![2, 0, 0, 0, 0, 0, 0, 0],
        // 2
        vec![255, 255, 255, 255, 255, 255, 255, 63],
        // 9.881313e-324
        vec![2, 0, 0, 0, 0, 0, 0, 0],
    ];
    kani::concrete_playback_run(concrete_vals, c15_h13_geo_y_z31);
}

