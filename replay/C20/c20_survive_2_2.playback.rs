// Concrete counterexample for harness types::limited_cache::kani_harness::c20_survive_2_2 (property C20).
// Replay: paste into the module of the harness in an overlay copy and run
//   cargo kani playback -Z concrete-playback -p versatiles_core -- <test name>
// failed checks:
//   "entry that was just used did not survive the next eviction" @ versatiles_core/src/types/limited_cache.rs:489:3 in function types::limited_cache::kani_harness::step_survive::<2, 2>
/// Test generated for harness `types::limited_cache::kani_harness::c20_survive_2_2` 
///
/// Check for `assertion`: ""entry that was just used did not survive the next eviction""
///
/// # Warning
///
/// Concrete playback tests combined with stubs or contracts is highly
/// experimental, and subject to change.
///
/// The original harness has stubs which are not applied to this test.
/// This may cause a mismatch of non-deterministic values if the stub
/// creates any non-deterministic value.
/// The execution path may also differ, which can be used to refine the stub
/// logic.

#[test]
fn kani_concrete_playback_c20_survive_2_2_1519180039952382547() {
    let concrete_vals: Vec<Vec<u8>> = vec![
        // 252
        vec![252],
        // 39936
        vec![0, 156],
        // 9223372036988993536ul
        vec![0, 0, 0, 8, 0, 0, 0, 128],
        // 253
        vec![253],
        // 65535
        vec![255, 255],
        // 9847871182655717380ul
        vec![4, 0, 0, 20, 170, 170, 170, 136],
        // 13546827677452730367ul
        vec![255, 255, 255, 155, 255, 255, 255, 187],
        // 253
        vec![253],
        // 252
        vec![252],
        // 39936
        vec![0, 156],
    ];
    kani::concrete_playback_run(concrete_vals, c20_survive_2_2);
}

