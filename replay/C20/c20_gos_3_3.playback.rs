// Concrete counterexample for harness types::limited_cache::kani_harness::c20_gos_3_3 (property C20).
// Replay: paste into the module of the harness in an overlay copy and run
//   cargo kani playback -Z concrete-playback -p versatiles_core -- <test name>
// failed checks:
//   "representation invariant broken by get_or_set" @ versatiles_core/src/types/limited_cache.rs:461:3 in function types::limited_cache::kani_harness::step_get_or_set::<3, 3>
/// Test generated for harness `types::limited_cache::kani_harness::c20_gos_3_3` 
///
/// Check for `assertion`: ""representation invariant broken by get_or_set""
///
/// # Warning
///
/// Concrete playback tests combined with stubs or contracts is highly
/// experimental, and subject to change.
///
/// The original harness has stubs which are not applied to this test.
/// This may cause a mismatch of non-deterministic values if the stub
/// creates any non-deterministic value.
/// The execution path may also differ, which can be used to refine the stub
/// logic.

#[test]
fn kani_concrete_playback_c20_gos_3_3_11597284450539565940() {
    let concrete_vals: Vec<Vec<u8>> = vec![
        // 143
        vec![143],
        // 65535
        vec![255, 255],
        // 17868875736068653055ul
        vec![255, 255, 247, 255, 206, 255, 250, 247],
        // 215
        vec![215],
        // 65535
        vec![255, 255],
        // 7996985352872525815ul
        vec![247, 255, 247, 255, 206, 255, 250, 110],
        // 11
        vec![11],
        // 65535
        vec![255, 255],
        // 17868875736068653047ul
        vec![247, 255, 247, 255, 206, 255, 250, 247],
        // 17870283321406128127ul
        vec![255, 255, 255, 255, 255, 255, 255, 247],
        // 247
        vec![247],
        // 1
        vec![1],
        // 1
        vec![1, 0],
    ];
    kani::concrete_playback_run(concrete_vals, c20_gos_3_3);
}

/// Test generated for harness `types::limited_cache::kani_harness::c20_gos_3_3` 
///
/// Check for `cover`: "miss + load"
///
/// # Warning
///
/// Concrete playback tests combined with stubs or contracts is highly
/// experimental, and subject to change.
///
/// The original harness has stubs which are not applied to this test.
/// This may cause a mismatch of non-deterministic values if the stub
/// creates any non-deterministic value.
/// The execution path may also differ, which can be used to refine the stub
/// logic.

#[test]
fn kani_concrete_playback_c20_gos_3_3_12218576911990244656() {
    let concrete_vals: Vec<Vec<u8>> = vec![
        // 255
        vec![255],
        // 65535
        vec![255, 255],
        // 9223372036854775807ul
        vec![255, 255, 255, 255, 255, 255, 255, 127],
        // 155
        vec![155],
        // 65535
        vec![255, 255],
        // 9223372036854775806ul
        vec![254, 255, 255, 255, 255, 255, 255, 127],
        // 127
        vec![127],
        // 65535
        vec![255, 255],
        // 8934578710749642754ul
        vec![2, 0, 0, 0, 0, 0, 254, 123],
        // 18446744073709551603ul
        vec![243, 255, 255, 255, 255, 255, 255, 255],
        // 191
        vec![191],
        // 1
        vec![1],
        // 65535
        vec![255, 255],
    ];
    kani::concrete_playback_run(concrete_vals, c20_gos_3_3);
}

/// Test generated for harness `types::limited_cache::kani_harness::c20_gos_3_3` 
///
/// Check for `cover`: "miss + failing loader"
///
/// # Warning
///
/// Concrete playback tests combined with stubs or contracts is highly
/// experimental, and subject to change.
///
/// The original harness has stubs which are not applied to this test.
/// This may cause a mismatch of non-deterministic values if the stub
/// creates any non-deterministic value.
/// The execution path may also differ, which can be used to refine the stub
/// logic.

#[test]
fn kani_concrete_playback_c20_gos_3_3_2217061383199842569() {
    let concrete_vals: Vec<Vec<u8>> = vec![
        // 49
        vec![49],
        // 1
        vec![1, 0],
        // 0ul
        vec![0, 0, 0, 0, 0, 0, 0, 0],
        // 56
        vec![56],
        // 65535
        vec![255, 255],
        // 0ul
        vec![0, 0, 0, 0, 0, 0, 0, 0],
        // 59
        vec![59],
        // 1
        vec![1, 0],
        // 286822790814236663ul
        vec![247, 255, 247, 255, 206, 255, 250, 3],
        // 1729382256910270463ul
        vec![255, 255, 255, 255, 255, 255, 255, 23],
        // 57
        vec![57],
        // 0
        vec![0],
        // 1
        vec![1, 0],
    ];
    kani::concrete_playback_run(concrete_vals, c20_gos_3_3);
}

/// Test generated for harness `types::limited_cache::kani_harness::c20_gos_3_3` 
///
/// Check for `cover`: "hit"
///
/// # Warning
///
/// Concrete playback tests combined with stubs or contracts is highly
/// experimental, and subject to change.
///
/// The original harness has stubs which are not applied to this test.
/// This may cause a mismatch of non-deterministic values if the stub
/// creates any non-deterministic value.
/// The execution path may also differ, which can be used to refine the stub
/// logic.

#[test]
fn kani_concrete_playback_c20_gos_3_3_12553757561123265497() {
    let concrete_vals: Vec<Vec<u8>> = vec![
        // 0
        vec![0],
        // 0
        vec![0, 0],
        // 0ul
        vec![0, 0, 0, 0, 0, 0, 0, 0],
        // 128
        vec![128],
        // 0
        vec![0, 0],
        // 424411488321664ul
        vec![128, 0, 0, 0, 0, 130, 1, 0],
        // 1
        vec![1],
        // 0
        vec![0, 0],
        // 283673999966336ul
        vec![128, 0, 0, 0, 0, 2, 1, 0],
        // 4611686018427388031ul
        vec![127, 0, 0, 0, 0, 0, 0, 64],
        // 1
        vec![1],
        // 0
        vec![0],
        // 0
        vec![0, 0],
    ];
    kani::concrete_playback_run(concrete_vals, c20_gos_3_3);
}

