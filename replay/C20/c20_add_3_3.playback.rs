// Concrete counterexample for harness types::limited_cache::kani_harness::c20_add_3_3 (property C20).
// Replay: paste into the module of the harness in an overlay copy and run
//   cargo kani playback -Z concrete-playback -p versatiles_core -- <test name>
// failed checks:
//   "representation invariant broken by add" @ versatiles_core/src/types/limited_cache.rs:404:3 in function types::limited_cache::kani_harness::step_add::<3, 3>
/// Test generated for harness `types::limited_cache::kani_harness::c20_add_3_3` 
///
/// Check for `assertion`: ""representation invariant broken by add""
///
/// # Warning
///
/// Concrete playback tests combined with stubs or contracts is highly
/// experimental, and subject to change.
///
/// The original harness has stubs which are not applied to this test.
/// This may cause a mismatch of non-deterministic values if the stub
/// creates any non-deterministic value.
/// The execution path may also differ, which can be used to refine the stub
/// logic.

#[test]
fn kani_concrete_playback_c20_add_3_3_3677301328422662000() {
    let concrete_vals: Vec<Vec<u8>> = vec![
        // 254
        vec![254],
        // 65535
        vec![255, 255],
        // 3705582160590143359ul
        vec![127, 255, 255, 143, 87, 223, 108, 51],
        // 253
        vec![253],
        // 0
        vec![0, 0],
        // 6011266494652996864ul
        vec![0, 221, 255, 31, 7, 79, 108, 83],
        // 255
        vec![255],
        // 65535
        vec![255, 255],
        // 6011343460466941184ul
        vec![0, 221, 255, 31, 7, 149, 108, 83],
        // 18446744073709551487ul
        vec![127, 255, 255, 255, 255, 255, 255, 255],
        // 251
        vec![251],
        // 65535
        vec![255, 255],
    ];
    kani::concrete_playback_run(concrete_vals, c20_add_3_3);
}

/// Test generated for harness `types::limited_cache::kani_harness::c20_add_3_3` 
///
/// Check for `cover`: "reachable (through an eviction when the cache is full)"
///
/// # Warning
///
/// Concrete playback tests combined with stubs or contracts is highly
/// experimental, and subject to change.
///
/// The original harness has stubs which are not applied to this test.
/// This may cause a mismatch of non-deterministic values if the stub
/// creates any non-deterministic value.
/// The execution path may also differ, which can be used to refine the stub
/// logic.

#[test]
fn kani_concrete_playback_c20_add_3_3_7087239080890757008() {
    let concrete_vals: Vec<Vec<u8>> = vec![
        // 222
        vec![222],
        // 65535
        vec![255, 255],
        // 4611686235323559009ul
        vec![97, 236, 4, 128, 50, 0, 0, 64],
        // 216
        vec![216],
        // 1
        vec![1, 0],
        // 4611686235323559011ul
        vec![99, 236, 4, 128, 50, 0, 0, 64],
        // 218
        vec![218],
        // 1
        vec![1, 0],
        // 84136520ul
        vec![72, 210, 3, 5, 0, 0, 0, 0],
        // 18446744073709551487ul
        vec![127, 255, 255, 255, 255, 255, 255, 255],
        // 216
        vec![216],
        // 1
        vec![1, 0],
    ];
    kani::concrete_playback_run(concrete_vals, c20_add_3_3);
}

