// Concrete counterexample for harness types::limited_cache::kani_harness::c20_gos_2_2 (property C20).
// Replay: paste into the module of the harness in an overlay copy and run
//   cargo kani playback -Z concrete-playback -p versatiles_core -- <test name>
// failed checks:
//   "representation invariant broken by get_or_set" @ versatiles_core/src/types/limited_cache.rs:461:3 in function types::limited_cache::kani_harness::step_get_or_set::<2, 2>
/// Test generated for harness `types::limited_cache::kani_harness::c20_gos_2_2` 
///
/// Check for `assertion`: ""representation invariant broken by get_or_set""
///
/// # Warning
///
/// Concrete playback tests combined with stubs or contracts is highly
/// experimental, and subject to change.
///
/// The original harness has stubs which are not applied to this test.
/// This may cause a mismatch of non-deterministic values if the stub
/// creates any non-deterministic value.
/// The execution path may also differ, which can be used to refine the stub
/// logic.

#[test]
fn kani_concrete_playback_c20_gos_2_2_1442339734925610131() {
    let concrete_vals: Vec<Vec<u8>> = vec![
        // 252
        vec![252],
        // 65535
        vec![255, 255],
        // 315892189347546967ul
        vec![87, 135, 97, 197, 69, 70, 98, 4],
        // 92
        vec![92],
        // 65535
        vec![255, 255],
        // 541143640163042222ul
        vec![174, 67, 97, 12, 70, 135, 130, 7],
        // 17972740212831027195ul
        vec![251, 255, 43, 250, 255, 255, 107, 249],
        // 124
        vec![124],
        // 1
        vec![1],
        // 65535
        vec![255, 255],
    ];
    kani::concrete_playback_run(concrete_vals, c20_gos_2_2);
}

/// Test generated for harness `types::limited_cache::kani_harness::c20_gos_2_2` 
///
/// Check for `cover`: "miss + load"
///
/// # Warning
///
/// Concrete playback tests combined with stubs or contracts is highly
/// experimental, and subject to change.
///
/// The original harness has stubs which are not applied to this test.
/// This may cause a mismatch of non-deterministic values if the stub
/// creates any non-deterministic value.
/// The execution path may also differ, which can be used to refine the stub
/// logic.

#[test]
fn kani_concrete_playback_c20_gos_2_2_3359899056642642250() {
    let concrete_vals: Vec<Vec<u8>> = vec![
        // 62
        vec![62],
        // 65535
        vec![255, 255],
        // 11537208796250111999ul
        vec![255, 255, 255, 255, 69, 102, 28, 160],
        // 158
        vec![158],
        // 65535
        vec![255, 255],
        // 11537208796250112000ul
        vec![0, 0, 0, 0, 70, 102, 28, 160],
        // 14215620195461972907ul
        vec![171, 67, 97, 12, 64, 7, 72, 197],
        // 156
        vec![156],
        // 1
        vec![1],
        // 2
        vec![2, 0],
    ];
    kani::concrete_playback_run(concrete_vals, c20_gos_2_2);
}

/// Test generated for harness `types::limited_cache::kani_harness::c20_gos_2_2` 
///
/// Check for `cover`: "miss + failing loader"
///
/// # Warning
///
/// Concrete playback tests combined with stubs or contracts is highly
/// experimental, and subject to change.
///
/// The original harness has stubs which are not applied to this test.
/// This may cause a mismatch of non-deterministic values if the stub
/// creates any non-deterministic value.
/// The execution path may also differ, which can be used to refine the stub
/// logic.

#[test]
fn kani_concrete_playback_c20_gos_2_2_9114388821122501678() {
    let concrete_vals: Vec<Vec<u8>> = vec![
        // 130
        vec![130],
        // 65533
        vec![253, 255],
        // 18445882898406965247ul
        vec![255, 255, 255, 255, 195, 240, 252, 255],
        // 128
        vec![128],
        // 65535
        vec![255, 255],
        // 18445846880811220988ul
        vec![252, 255, 255, 255, 1, 208, 252, 255],
        // 18445891711411421183ul
        vec![255, 255, 255, 239, 199, 248, 252, 255],
        // 131
        vec![131],
        // 0
        vec![0],
        // 65533
        vec![253, 255],
    ];
    kani::concrete_playback_run(concrete_vals, c20_gos_2_2);
}

/// Test generated for harness `types::limited_cache::kani_harness::c20_gos_2_2` 
///
/// Check for `cover`: "hit"
///
/// # Warning
///
/// Concrete playback tests combined with stubs or contracts is highly
/// experimental, and subject to change.
///
/// The original harness has stubs which are not applied to this test.
/// This may cause a mismatch of non-deterministic values if the stub
/// creates any non-deterministic value.
/// The execution path may also differ, which can be used to refine the stub
/// logic.

#[test]
fn kani_concrete_playback_c20_gos_2_2_2300169803152039402() {
    let concrete_vals: Vec<Vec<u8>> = vec![
        // 134
        vec![134],
        // 65535
        vec![255, 255],
        // 9223372040612872196ul
        vec![4, 0, 0, 224, 0, 0, 0, 128],
        // 123
        vec![123],
        // 65532
        vec![252, 255],
        // 14495514628ul
        vec![4, 0, 0, 96, 3, 0, 0, 0],
        // 9223372040612872204ul
        vec![12, 0, 0, 224, 0, 0, 0, 128],
        // 123
        vec![123],
        // 0
        vec![0],
        // 65532
        vec![252, 255],
    ];
    kani::concrete_playback_run(concrete_vals, c20_gos_2_2);
}

