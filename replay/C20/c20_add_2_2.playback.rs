// Concrete counterexample for harness types::limited_cache::kani_harness::c20_add_2_2 (property C20).
// Replay: paste into the module of the harness in an overlay copy and run
//   cargo kani playback -Z concrete-playback -p versatiles_core -- <test name>
// failed checks:
//   "representation invariant broken by add" @ versatiles_core/src/types/limited_cache.rs:404:3 in function types::limited_cache::kani_harness::step_add::<2, 2>
/// Test generated for harness `types::limited_cache::kani_harness::c20_add_2_2` 
///
/// Check for `assertion`: ""representation invariant broken by add""
///
/// # Warning
///
/// Concrete playback tests combined with stubs or contracts is highly
/// experimental, and subject to change.
///
/// The original harness has stubs which are not applied to this test.
/// This may cause a mismatch of non-deterministic values if the stub
/// creates any non-deterministic value.
/// The execution path may also differ, which can be used to refine the stub
/// logic.

#[test]
fn kani_concrete_playback_c20_add_2_2_3553748610681627378() {
    let concrete_vals: Vec<Vec<u8>> = vec![
        // 5
        vec![5],
        // 2
        vec![2, 0],
        // 18446744053306359839ul
        vec![31, 0, 224, 63, 251, 255, 255, 255],
        // 4
        vec![4],
        // 2
        vec![2, 0],
        // 18446744053291679774ul
        vec![30, 0, 0, 63, 251, 255, 255, 255],
        // 18446744071562068223ul
        vec![255, 0, 0, 128, 255, 255, 255, 255],
        // 4
        vec![4],
        // 2
        vec![2, 0],
    ];
    kani::concrete_playback_run(concrete_vals, c20_add_2_2);
}

/// Test generated for harness `types::limited_cache::kani_harness::c20_add_2_2` 
///
/// Check for `cover`: "reachable (through an eviction when the cache is full)"
///
/// # Warning
///
/// Concrete playback tests combined with stubs or contracts is highly
/// experimental, and subject to change.
///
/// The original harness has stubs which are not applied to this test.
/// This may cause a mismatch of non-deterministic values if the stub
/// creates any non-deterministic value.
/// The execution path may also differ, which can be used to refine the stub
/// logic.

#[test]
fn kani_concrete_playback_c20_add_2_2_11651033075635323931() {
    let concrete_vals: Vec<Vec<u8>> = vec![
        // 127
        vec![127],
        // 65535
        vec![255, 255],
        // 16140901064495857663ul
        vec![255, 255, 255, 255, 255, 255, 255, 223],
        // 255
        vec![255],
        // 65535
        vec![255, 255],
        // 16140901064495857662ul
        vec![254, 255, 255, 255, 255, 255, 255, 223],
        // 16140901064495857663ul
        vec![255, 255, 255, 255, 255, 255, 255, 223],
        // 127
        vec![127],
        // 65535
        vec![255, 255],
    ];
    kani::concrete_playback_run(concrete_vals, c20_add_2_2);
}

