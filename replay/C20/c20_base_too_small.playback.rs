// Concrete counterexample for harness types::limited_cache::kani_harness::c20_base_too_small (property C20).
// Replay: paste into the module of the harness in an overlay copy and run
//   cargo kani playback -Z concrete-playback -p versatiles_core -- <test name>
// failed checks:
//   size ({maximum_size} bytes) is too small to store a single element of size {per_element_size} bytes @ versatiles_core/src/types/limited_cache.rs:74:4 in function types::limited_cache::LimitedCache::<u8, (u8, u16)>::with_maximum_size
/// Test generated for harness `types::limited_cache::kani_harness::c20_base_too_small` 
///
/// Check for `assertion`: "size ({maximum_size} bytes) is too small to store a single element of size {per_element_size} bytes"
///
/// # Warning
///
/// Concrete playback tests combined with stubs or contracts is highly
/// experimental, and subject to change.
///
/// The original harness has stubs which are not applied to this test.
/// This may cause a mismatch of non-deterministic values if the stub
/// creates any non-deterministic value.
/// The execution path may also differ, which can be used to refine the stub
/// logic.

#[test]
fn kani_concrete_playback_c20_base_too_small_11037437166730859595() {
    let concrete_vals: Vec<Vec<u8>> = vec![
        // 3ul
        vec![3, 0, 0, 0, 0, 0, 0, 0],
    ];
    kani::concrete_playback_run(concrete_vals, c20_base_too_small);
}

