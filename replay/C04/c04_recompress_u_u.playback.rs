// Concrete counterexample for harness verif_kani::c04::c04_recompress_u_u (property C04).
// Replay: paste into the module of the harness in an overlay copy and run
//   cargo kani playback -Z concrete-playback -p versatiles_container -- <test name>
// failed checks:
//   "pipeline must be empty exactly when nothing has to be done" @ versatiles_container/src/verif_kani/c04.rs:43:3 in function verif_kani::c04::recompress_pair::<0, 0>
/// Test generated for harness `verif_kani::c04::c04_recompress_u_u` 
///
/// Check for `assertion`: ""pipeline must be empty exactly when nothing has to be done""
///
/// # Warning
///
/// Concrete playback tests combined with stubs or contracts is highly
/// experimental, and subject to change.
///
/// The original harness has stubs which are not applied to this test.
/// This may cause a mismatch of non-deterministic values if the stub
/// creates any non-deterministic value.
/// The execution path may also differ, which can be used to refine the stub
/// logic.

#[test]
fn kani_concrete_playback_c04_recompress_u_u_4493235234129756967() {
    let concrete_vals: Vec<Vec<u8>> = vec![
        // 0
        vec![0],
        // 0
        vec![0],
    ];
    kani::concrete_playback_run(concrete_vals, c04_recompress_u_u);
}

