// Concrete counterexample for harness verif_kani::c04::c04_h1_recompressor (property C04).
// Replay: paste into the module of the harness in an overlay copy and run
//   cargo kani playback -Z concrete-playback -p versatiles_container -- <test name>
// failed checks:
//   "pipeline must be empty exactly when nothing has to be done" @ versatiles_container/src/verif_kani/c04.rs:48:6 in function verif_kani::c04::c04_h1_recompressor
/// Test generated for harness `verif_kani::c04::c04_h1_recompressor` 
///
/// Check for `assertion`: ""pipeline must be empty exactly when nothing has to be done""
///
/// # Warning
///
/// Concrete playback tests combined with stubs or contracts is highly
/// experimental, and subject to change.
///
/// The original harness has stubs which are not applied to this test.
/// This may cause a mismatch of non-deterministic values if the stub
/// creates any non-deterministic value.
/// The execution path may also differ, which can be used to refine the stub
/// logic.

#[test]
fn kani_concrete_playback_c04_h1_recompressor_4865561117588052178() {
    let concrete_vals: Vec<Vec<u8>> = vec![
        // 0ul
        vec![0, 0, 0, 0, 0, 0, 0, 0],
        // 255
        vec![255],
        // 255
        vec![255],
        // 255
        vec![255],
    ];
    kani::concrete_playback_run(concrete_vals, c04_h1_recompressor);
}

