// Concrete counterexample for harness verif_kani::c19::c11_svarint_roundtrip (property C11).
// Replay: paste into the module of the harness in an overlay copy and run
//   cargo kani playback -Z concrete-playback -p versatiles_core -- <test name>
// failed checks:
//   "read_svarint(write_svarint(v)) != v" @ versatiles_core/src/verif_kani/c19.rs:117:2 in function verif_kani::c19::c11_svarint_roundtrip
/// Test generated for harness `verif_kani::c19::c11_svarint_roundtrip` 
///
/// Check for `assertion`: ""read_svarint(write_svarint(v)) != v""
///
/// # Warning
///
/// Concrete playback tests combined with stubs or contracts is highly
/// experimental, and subject to change.
///
/// The original harness has stubs which are not applied to this test.
/// This may cause a mismatch of non-deterministic values if the stub
/// creates any non-deterministic value.
/// The execution path may also differ, which can be used to refine the stub
/// logic.

#[test]
fn kani_concrete_playback_c11_svarint_roundtrip_12493137241458373087() {
    let concrete_vals: Vec<Vec<u8>> = vec![
        // -4647714815447862877
        vec![163, 241, 232, 255, 255, 255, 127, 191],
    ];
    kani::concrete_playback_run(concrete_vals, c11_svarint_roundtrip);
}

/// Test generated for harness `verif_kani::c19::c11_svarint_roundtrip` 
///
/// Check for `cover`: "cover condition: v == -1"
///
/// # Warning
///
/// Concrete playback tests combined with stubs or contracts is highly
/// experimental, and subject to change.
///
/// The original harness has stubs which are not applied to this test.
/// This may cause a mismatch of non-deterministic values if the stub
/// creates any non-deterministic value.
/// The execution path may also differ, which can be used to refine the stub
/// logic.

#[test]
fn kani_concrete_playback_c11_svarint_roundtrip_6711327724317350200() {
    let concrete_vals: Vec<Vec<u8>> = vec![
        // -1
        vec![255, 255, 255, 255, 255, 255, 255, 255],
    ];
    kani::concrete_playback_run(concrete_vals, c11_svarint_roundtrip);
}

