"""Per-property manifest texts."""
SOURCE_COMMITS = []
NOTES = ("Solver-based checking of the real code. Engine A: Kani 0.68/CBMC 6.11 harnesses compiled together with an overlay copy of "
	"/repo's working tree (regenerated on every run). Engine B: nightly MIR dump -> SMT-LIB2 (z3/cvc5). Exit codes: 0 held / only "
	"listed known findings; 1 VIOLATION (reproduced counterexample); 2 inconclusive (timeout, memory, vacuous cover, overlay mismatch).")
ENGINES = [
	{"name": "kani-overlay", "path": "/verif/lib/vlib.py", "serves_properties": [], "kind_free_text": "Kani/CBMC bounded model checking of the repository's functions, harnesses in /verif/harness overlaid on a scratch copy"},
]
BMC = "bounded model checking"
CHECKS = {
	"C15": {
		"text": "Every set-law of TileBBox (emptiness, containment, intersection, bounding union, overlap, include_coord, flip/swap involutions) is "
			"decided by CBMC for all 32 zoom levels and all u32 coordinates including both encodings of the empty box; index and grid laws within stated size bounds. "
			"A solver verdict over all values is the right level because the defects live at single coordinates/levels no test samples.",
		"note": "Bounds: see evidence (per harness). Assumes: u32::pow(2,z) = 1<<z model, std::fmt::format and Backtrace::capture stubbed. Trusted: Kani codegen, CBMC, CaDiCaL.",
	},
}
CHECKS["C20"] = {
	"text": "Inductive step decided by CBMC on the real add/get/get_or_set/cleanup bodies from an ARBITRARY cache state satisfying a representation invariant "
		"(plus the base case with_maximum_size): capacity, transparency, get-or-compute and just-used-survives hold after histories of any length, for capacities 1..3 (quick) / 1..4 (thorough). "
		"An inductive step is the only way a bounded solver query covers unbounded histories.",
	"note": "HashMap replaced by an association-list model (hashing outside the claim); entry count and capacity concrete per instance (len <= cap <= 4), keys/values/stamps symbolic; capacities > 4 outside the bound.",
	"technique": "inductive invariant step, bounded model checking of the real Rust code (Kani/CBMC + CaDiCaL)",
}
NOT_APPLICABLE = {
	"C12": "interrupted writes: needs whole-function runs of the async writers followed by readers on a buffer that depends on a symbolic crash point, and rests on gzip/brotli rejecting truncated streams (loops over input inside the codecs) - out of reach of CBMC (DESIGN.md section 5)",
	"C14": "completion orders of tokio::spawn + buffer_unordered: Kani has no threads or tokio runtime; an SMT model of buffer_unordered would verify the model, not the repository (DESIGN.md section 5)",
	"C18": "parse_vpl is a recursive nom combinator parser over heap strings: no CBMC verdict on 4 symbolic bytes in 25 min / 8 GB; the shortest interesting texts need 5-8 bytes (DESIGN.md section 5)",
}
PENDING = "check under construction in this session (harness set not yet registered)"
for p in ["C01", "C02", "C03", "C04", "C05", "C06", "C07", "C08", "C09", "C10", "C11", "C13", "C16", "C17", "C19"]:
	NOT_APPLICABLE.setdefault(p, PENDING)
