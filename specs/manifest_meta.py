"""Per-property manifest texts."""
SOURCE_COMMITS = []
NOTES = ("Solver-based checking of the real code. Engine A: Kani 0.68/CBMC 6.11 harnesses compiled together with an overlay copy of "
	"/repo's working tree (regenerated on every run). Engine B: nightly MIR dump -> SMT-LIB2 (z3/cvc5). Exit codes: 0 held / only "
	"listed known findings; 1 VIOLATION (reproduced counterexample); 2 inconclusive (timeout, memory, vacuous cover, overlay mismatch).")
ENGINES = [
	{"name": "mir-smt", "path": "/verif/lib/engine_b.py", "serves_properties": ["C13", "C06", "C02", "C09"], "kind_free_text": "nightly MIR dump -> call skeleton -> SMT-LIB2 interleaving model, z3/cvc5"},
	{"name": "mir-symex", "path": "/verif/lib/engine_c08.py", "serves_properties": ["C08"], "kind_free_text": "nightly MIR dump -> bounded symbolic execution of a coroutine body (path conditions over symbolic source answers) -> SMT-LIB2, z3/cvc5"},
	{"name": "kani-overlay", "path": "/verif/lib/vlib.py", "serves_properties": [], "kind_free_text": "Kani/CBMC bounded model checking of the repository's functions, harnesses in /verif/harness overlaid on a scratch copy"},
]
BMC = "bounded model checking"
CHECKS = {
	"C15": {
		"text": "Every set-law of TileBBox (emptiness, containment, intersection, bounding union, overlap, include_coord, flip/swap involutions) is "
			"decided by CBMC for all 32 zoom levels and all u32 coordinates including both encodings of the empty box; index and grid laws within stated size bounds. "
			"A solver verdict over all values is the right level because the defects live at single coordinates/levels no test samples.",
		"note": "Bounds: see evidence (per harness). Assumes: u32::pow(2,z) = 1<<z model, std::fmt::format and Backtrace::capture stubbed. Trusted: Kani codegen, CBMC, CaDiCaL.",
	},
}
CHECKS["C20"] = {
	"text": "Inductive step decided by CBMC on the real add/get/get_or_set/cleanup bodies from an ARBITRARY cache state satisfying a representation invariant "
		"(plus the base case with_maximum_size): capacity, transparency, get-or-compute and just-used-survives hold after histories of any length, for capacities 1..3 (quick) / 1..6 and 8 (thorough). "
		"An inductive step is the only way a bounded solver query covers unbounded histories.",
	"note": "HashMap replaced by an association-list model (hashing outside the claim); entry count and capacity concrete per instance (len <= cap <= 8), keys/values/stamps symbolic; capacities > 8 (and 7) outside the bound.",
	"technique": "inductive invariant step, bounded model checking of the real Rust code (Kani/CBMC + CaDiCaL)",
}
BMCT = "bounded model checking of the real Rust code (Kani/CBMC + CaDiCaL) over symbolic inputs"
CHECKS["C19"] = {
	"text": "One no-panic / no-abort / bounded-allocation harness per decoding entry point, decided by CBMC for EVERY byte string of the stated length "
		"(exact sizes for the fixed-size headers: 66, 33, 127 bytes; short buffers and shape-directed inputs for the variable-length decoders). "
		"Crashing inputs are single byte patterns (length fields, multi-byte varints) that sampling misses; a solver verdict over all bytes finds them. "
		"Also the argument gate of filter_bbox / convert --bbox: GeoBBox::check accepts exactly the valid boxes for every f64 bit pattern (NaN, infinities), so nothing invalid reaches intersect_geo_bbox(..).unwrap().",
	"note": "vec![0u8; n] routed through an allocation monitor (n <= 8*len + 64); format!/Backtrace stubbed (a panic inside a Display impl would be missed); u32::pow(2,z) model; HashMap model in BlockIndex/VTLPMap. "
		"ByteIterator::format_error (the error excerpt of every JSON/CSV syntax error) from an arbitrary iterator state at positions 1 and 2. Outside: parse_vpl, number parsing, JSON/CSV text parsers themselves (from_utf8 over symbolic bytes: no verdict within reach, DESIGN 0.2 item 5), whole MBTiles/tar/directory containers, real decompressors.",
	"technique": BMCT + "; shape-directed inputs for variable-length decoders",
}
CHECKS["C01"] = {
	"text": "Layout kernels of the versatiles v02 and PMTiles v3 writers/readers: file header, block definition, tile index, PMTiles header and codes, Hilbert tile ids. "
		"For all field values CBMC shows (a) an independent decoder written from the published layout recovers every field from the written bytes and (b) reader(writer(x)) = x. "
		"Whether a written file can be read back, and by a foreign decoder, is decided by exactly this arithmetic.",
	"note": "Outside the claim (stated in evidence): order/positions of the async writers' I/O operations, de-duplication, PMTiles directory serialisation (EntriesV3::serialize: CBMC out of memory at 1 entry) and the 16 KiB root/leaf split, metadata, MBTiles/tar/directory, real compression, tile id round trip at zoom levels other than the instances {0, 1, 3, 6, 10, 14, 20, 31} (differential vs the spec algorithm at {0, 1, 2, 5, 8, 12, 16, 24, 31}).",
	"technique": BMCT + "; differential against an independent layout decoder / reference Hilbert algorithm",
}
CHECKS["C16"] = {
	"text": "Decoding kernels on input from an independent encoder in the harness that uses freedoms the repository's writers never use: PMTiles run lengths > 1, shared offsets, leaf pointers, optional contiguous-offset shorthand; sparse versatiles block index with partial blocks. "
		"find_tile is compared with the specification's linear lookup for every target id.",
	"note": "Entry counts concrete per instance (0..5), fields symbolic (< 2^7 / 2^14 for encoded directories, full width for lookups). Outside: whole reader runs over async I/O, MBTiles/tar/directory, three-level PMTiles trees, real compression.",
	"technique": BMCT + "; differential against a reference lookup",
}
CHECKS["C06"] = {
	"text": "Three parts. (1) CBMC on the real coverage kernel of TilesConvertReader (advertised coverage = {c in selection, T^-1(c) in source} for all 4 flag combinations, full-width boxes) and on TileBBox::add_border. "
		"(2) Engine B: the flip_y / swap_xy / clip call sequences of new_from_reader, get_tile_data, get_bbox_tile_stream and its map_coord closure are extracted from the nightly MIR for every (flip, swap, requested pyramid) assignment and z3 (thorough: also cvc5) decides "
		"coverage = specification (flip first, then swap), lookup(T(p)) = p, stream coordinate map = T, stream request box = T^-1 of the requested box, for every level, box and tile; a SAT model is replayed on the real reader over an asymmetric echo source. "
		"(3) CBMC on the geographic box -> tile box conversion (TileBBox::from_geo / TileCoord2::from_geo, one axis and one zoom per instance, every f64 bit pattern of a valid box, incl. the antimeridian and the 1e-6 guard). "
		"The flip+swap defect needs both flags and an asymmetric coordinate: no test has it, the solver finds it.",
	"note": "The async converting reader itself is out of reach for CBMC (5-38 GB, no verdict), hence Engine B for the lookup / stream paths (helper functions and inherent methods of the crate are descended into, flag identities are carried through their parameters; a counterexample is only reported if the native replay confirms it). "
		"Outside: payloads on the lookup/stream path (C04), writers (C01), CLI glue in convert.rs/serve.rs, tan/ln by a monotone model in the latitude harnesses.",
	"technique": BMCT + "; plus symbolic encoding of the compiler's MIR (nightly -Zunpretty=mir -> SMT-LIB2), z3 / cvc5, for the async lookup and stream paths",
}
CHECKS["C04"] = {
	"text": "Recompression pipeline (TileConverter::new_tile_recompressor + process_blob, recompress/compress/decompress dispatch) under a codec model that is exactly the contract of a lossless codec: for all 3x3x2 (source, target, force) configurations and a symbolic payload, decoding the output under the TARGET compression yields the source payload; pipeline empty iff nothing to do.",
	"note": "gzip/brotli replaced by the tag model enc(p) = TAG ++ p (real codecs outside the claim); payload <= 3 bytes (the code never inspects payload bytes). That TilesConvertReader DECLARES the target compression it recompresses to (c04_declared_*: 420-780 s each, out of memory when run in parallel) is not registered and outside the claim.",
	"technique": BMCT + " under a lossless-codec model",
}
CHECKS["C11"] = {
	"text": "The varint and zigzag primitives every vector-tile field is written and read with: write_varint/read_varint and write_svarint/read_svarint are mutually inverse for ALL u64 / i64 values, canonical length, exact consumption (this found the arithmetic-shift defect of read_svarint for |v| >= 2^62). Value codec one side at a time: GeoValue::read maps every (field, wire type) and every primitive payload to the variant the MVT Value message prescribes (scripted ValueReader), GeoValue::to_blob writes what a reference protobuf reader decodes back to the value, per variant, all 64-bit payloads.",
	"note": "Primitives and the value codec only: layer / feature decoding reads through Box<dyn ValueReader> sub-readers and produced no verdict within 2400 s even on structured inputs (harnesses kept unregistered); strings inside values (from_utf8 on symbolic bytes) and the update_properties operation (async, dyn, CSV) are outside: the statement about whole tiles and about the update stage is NOT decided, only the value/varint level of \"decoding and re-encoding preserves content\".",
	"technique": BMCT + "; differential against ground truth from an independent encoder",
}
CHECKS["C05"] = {
	"text": "Two decidable kernels of the tile endpoint: (1) optimize_compression for every (stored compression, allowed set, goal) x symbolic payload: error iff identity not allowed, encoding in the allowed set, body decodes to the stored tile, incompressible/fast rules; "
		"(2) TileSource::get_data on every short request path over a 6-symbol alphabet: served iff the parsed coordinate holds the tile, 'not found' otherwise, error for unparsable parts, never a panic.",
	"note": "Everything HTTP (routing, status line, headers, Accept-Encoding parsing) is outside the claim; codec model; tokio mutex uncontended; hand-rolled block_on.",
	"technique": BMCT,
}
CHECKS["C07"] = {
	"text": "The real Folder::get_data composed with a byte-level model of std::path (join/starts_with) and File::open as the I/O boundary: for EVERY request of up to 4 (quick) / 9 (thorough) bytes over {'/','.','a','%','2','e','\\'} the path handed to File::open resolves inside the root. "
		"The byte-level model of Url::has_parent_segment used there is shown equal to the real helper by separate harnesses. A counterexample is replayed natively against Folder::from + get_data with a canary file outside the root.",
	"note": "std::path functions are modelled from their documented semantics (the real Components state machine is out of reach for CBMC); symlinks, the tar source (exact-name lookup), the HTTP layer and percent-decoding (there is none) are outside the claim.",
	"technique": BMCT + " with a std::path model; compositional (helper proven equal to its model)",
}
CHECKS["C13"] = {
	"text": "Interleavings are the symbolic variable: the system-call skeleton of DataReaderFile::read_range/read_all is extracted from the nightly MIR dump of the current tree and n callers run it against POSIX open-file-description semantics in an SMT model; z3 (cvc5 cross-check) decides whether some schedule makes a caller read at a position other than its own offset. No test can choose a schedule; the solver ranges over all of them.",
	"note": "n = 2 (quick) / 2,3 (thorough); success path only; unknown calls on the File value make the result inconclusive; tile lookups reduce to read_range by reading (async mutexes trusted). A sat verdict is replayed with 16 native threads.",
	"technique": "MIR -> SMT-LIB2 interleaving model, decided by z3/cvc5",
	"engine": "mir-smt",
}
CHECKS["C09"] = {
	"text": "What decides which tiles a filter stage passes is the coverage pyramid it consults (lookup: contains_coord guard; stream: intersect_pyramid). CBMC decides for pyramids with all 32 levels symbolic: "
		"set_zoom_min/max keep exactly the levels in [min, max] for every u8 pair (incl. min > max, > 31); intersect is the level-wise set intersection; contains_coord and intersect_pyramid are exact; "
		"a valid geographic box always maps to a tile box (no error for filter_bbox to unwrap), and GeoBBox::check - the gate filter_bbox puts in front of that unwrap - accepts exactly the valid boxes for every f64 bit pattern (NaN included).",
	"note": "The filter Operation objects themselves (Box<dyn OperationTrait>, async_trait futures) are out of reach for CBMC (no verdict at the smallest bound, DESIGN 0.2 item 3); that their lookup guards with and their stream clips by exactly this pyramid is decided by Engine B: "
		"the guard/clip call skeleton of filter_zoom / filter_bbox get_tile_data and get_tile_stream is extracted from the nightly MIR and z3 (thorough: also cvc5) decides lookup = coverage and stream = lookups inside the box for every level, coverage box (also empty), request box and tile; a SAT model is replayed on real pipelines over from_debug. Build glue / VPL parsing outside.",
	"technique": BMCT + "; plus symbolic encoding of the compiler's MIR (-Zunpretty=mir -> SMT-LIB2), z3 / cvc5, for the async operations",
}
CHECKS["C03"] = {
	"text": "Kernels from which readers and operations derive their advertised coverage: folding include_coord over stored tiles yields exactly their bounding box per level (tar / directory / PMTiles readers); "
		"converting reader: advertised = selected pre-image set.",
	"note": "Zoom levels of the folded tiles concrete per instance, coordinates symbolic; MBTiles MIN/MAX SQL, PMTiles directory walk (async), file-name parsing, the versatiles block-index union and the pipeline unions (include_bbox_pyramid: no verdict within reach) outside.",
	"technique": BMCT,
}
CHECKS["C02"] = {
	"text": "Coordinate-transformed stream of the converting reader against its single-tile lookups: the flip/swap/clip call sequences of get_tile_data, get_bbox_tile_stream and its map_coord closure are extracted from the nightly MIR "
		"for each of the 8 (flip_y, swap_xy, requested pyramid) assignments and z3 (thorough: also cvc5) decides, for every level, source box, requested box and tile, that the stream over a box delivers source tile p at coordinate c exactly when the lookup at c inside the box returns p (guards and clips of both paths included), "
		"plus the per-path decomposition of C06. The optimised stream paths are exactly what no test compares with lookups; a SAT model is replayed on the real reader over a 4x4 echo source.",
	"note": "Decides the converting reader only, on the coordinate level. Outside (stated in evidence): the trait's default stream (futures machinery: no CBMC verdict at a 2x1 box in 1500 s / 18 GB), the versatiles reader's chunked stream, "
		"MBTiles SQL range query, pipeline operations, payload bytes (C04), multi-threaded execution (C14).",
	"technique": "symbolic encoding of the compiler's MIR (nightly -Zunpretty=mir -> SMT-LIB2 bit-vectors), z3 / cvc5",
}
CHECKS["C10"] = {
	"text": "Layer-level kernel of the merge: VectorTileLayer::add_from_layer on two equally named layers written by an independent MVT encoder from symbolic ground truths whose key/value tables hold the same entries in different order: "
		"features of both in order, ids / geometry unchanged, every tag still denotes its ground-truth key and value.",
	"note": "2 table entries, 1 feature with 1 tag per layer; HashMap model; BTreeMap-based GeoProperties executed for real. The from_vectortiles_merged operation (dyn sources, async) and merge_tiles' grouping are outside.",
	"technique": BMCT + "; differential against ground truth from an independent encoder",
}
NOT_APPLICABLE = {
	"C12": "interrupted writes: needs whole-function runs of the async writers followed by readers on a buffer that depends on a symbolic crash point, and rests on gzip/brotli rejecting truncated streams (loops over input inside the codecs) - out of reach of CBMC (DESIGN.md section 5)",
	"C14": "completion orders of tokio::spawn + buffer_unordered: Kani has no threads or tokio runtime; an SMT model of buffer_unordered would verify the model, not the repository (DESIGN.md section 5)",
	"C18": "parse_vpl is a recursive nom combinator parser over heap strings: no CBMC verdict on 4 symbolic bytes in 25 min / 8 GB; the shortest interesting texts need 5-8 bytes (DESIGN.md section 5)",
}
CHECKS["C08"] = {
	"text": "Lookup path of the overlay: the coroutine body of <from_overlayed::Operation as OperationTrait>::get_tile_data is taken from the nightly MIR of the current tree and executed symbolically with the number of sources n <= N and, per source, "
		"'this source has a tile at the requested coordinate' as symbolic variables (slice iterator, boxed future, Poll, `?`, Option given their documented semantics). z3 (thorough: also cvc5) decides for every n and every has-vector: "
		"the extracted paths are exhaustive, sources are asked in list order at the requested coordinate, and the result is the tile of the FIRST source that has one - recompressed from that source's compression to the overlay's - or None if none has. "
		"No test varies which sources have a tile; a SAT model is replayed on real overlay pipelines (mock sources that sign their tiles, narrowed by real filters, 7 source orders, levels 0-4), where the stream is compared as well.",
	"note": "Lookup path only, N = 2,3 (quick) / up to 8 (thorough). The overlay's get_tile_stream (nested loops over a tile buffer, closures, futures::stream) is beyond this executor and beyond CBMC (every Kani harness that polls the operation ran out of memory, DESIGN 0.2 item 3) and is outside the claim; "
		"so are error paths, Operation::build (source order, coverage union, compression choice) and recompress itself (C04). Any call or branch the executor has no model for makes the result inconclusive (exit 2), never a pass.",
	"technique": "bounded symbolic execution of the compiler's MIR (nightly -Zunpretty=mir; path conditions over symbolic source answers) -> SMT-LIB2, decided by z3 / cvc5",
	"engine": "mir-symex",
	"design_ref": "DESIGN.md section 0.4c",
}
NOT_APPLICABLE["C08"] = ("from_overlayed is a Vec<Box<dyn OperationTrait>> of async_trait operations: every harness that polls Operation::get_tile_data / get_tile_stream "
	"(2 echo sources, concrete level, codecs stubbed, futures leaked) ran out of memory (5-38 GB) or time without a verdict - CBMC unwinds the dynamic dispatch recursively together with anyhow's drop glue "
	"(DESIGN.md 0.2 item 3); nothing decisive of the property is left outside that code")
NOT_APPLICABLE["C10"] = ("the merge operation is a Vec<Box<dyn OperationTrait>> of async sources (out of reach, see C08); its layer-level kernel VectorTileLayer::add_from_layer on two structured layers "
	"(2 table entries, 1 feature each, HashMap model) still reads through Box<dyn ValueReader> sub-readers and BTreeMap-based GeoProperties and produced no verdict in 2400 s / 10 GB")
NOT_APPLICABLE["C17"] = ("the JSON string kernel did not finish at its smallest bound: escape_json_string with real formatting on ONE char and parse_quoted_json_string on one production each timed out at 1200 s "
	"(ByteIterator with its 4 KiB buffer and boxed dyn Read, char::is_control tables, format!); numbers (dec2flt) and TileJSON round trips (BTreeMap, regex, async I/O) are further out (DESIGN.md 0.2 item 5, section 8 fallback rule)")
PENDING = "check under construction in this session (harness set not yet registered)"
for p in ["C02", "C03", "C08", "C09", "C10", "C17", "C19"]:
	NOT_APPLICABLE.setdefault(p, PENDING)
