"""Harness registry: property id -> harness instances and evidence metadata."""
from vlib import H

CORE = "versatiles_core"
ALL_LEVELS = "zoom level 0..=31 symbolic, coordinates full-width u32"
BBOX = "TileBBox from the closure of new/new_full/new_empty/set_empty/intersect_bbox (both empty encodings)"

PROPS = {}
PYR_LOOPS = [(r"TileBBoxPyramid|try_from_fn|from_fn|tile_bbox_pyramid", 34)]
POW = "u32::pow(2,z) -> 1<<z"

# ------------------------------------------------------------------------------------------ C15
c15 = "verif_kani::c15"
PROPS["C15"] = {
	"harnesses": [
		H("c15_gen_closure", CORE, c15, funcs=["TileBBox::new", "TileBBox::new_full", "TileBBox::new_empty", "TileBBox::set_empty", "TileBBox::intersect_bbox"],
			bounds=ALL_LEVELS, sample="level, 4 x u32 constructor arguments, two generator boxes", stubs=["u32::pow(2,z) -> 1<<z"]),
		H("c15_h1_empty_contains", CORE, c15, funcs=["TileBBox::is_empty", "TileBBox::contains2", "TileBBox::contains3"], bounds=ALL_LEVELS, sample=BBOX + "; symbolic tile p, symbolic z"),
		H("c15_h2_intersect", CORE, c15, funcs=["TileBBox::intersect_bbox"], bounds=ALL_LEVELS, sample="two " + BBOX + "; symbolic tile p"),
		H("c15_h3_include_bbox", CORE, c15, funcs=["TileBBox::include_bbox"], bounds=ALL_LEVELS, sample="two " + BBOX + "; symbolic tile p"),
		H("c15_h4_overlaps", CORE, c15, funcs=["TileBBox::overlaps_bbox"], bounds=ALL_LEVELS, sample="two " + BBOX + "; symbolic tile p"),
		H("c15_h5_include_coord", CORE, c15, funcs=["TileBBox::include_coord", "TileBBox::include_coord3"], bounds=ALL_LEVELS + "; included coordinate <= max of the level", sample=BBOX + "; tile q to include, tile p, level z"),
		H("c15_h10_transform_box", CORE, c15, funcs=["<TileBBox as TransformCoord>::flip_y", "<TileBBox as TransformCoord>::swap_xy", "<TileCoord3 as TransformCoord>::flip_y", "<TileCoord3 as TransformCoord>::swap_xy"],
			bounds=ALL_LEVELS, sample=BBOX + "; tile p of that level", stubs=["u32::pow(2,z) -> 1<<z"]),
	],
	"meta": {
		"assumptions": ["u32::pow(2, z) replaced by 1 << z with the same overflow panic (harnesses that reach TileBBox::new*/flip_y)"],
		"out": ["y direction of the tile->geo->tile round trip (needs the true atan/exp/ln/tan pair)", "get_geo_center", "Debug output"],
	},
}

# ------------------------------------------------------------------------------------------ C20
c20 = "types::limited_cache::kani_harness"
LC = ["LimitedCache::add", "LimitedCache::get", "LimitedCache::get_or_set", "LimitedCache::cleanup"]


def _c20(kind, ln, cap, tier="quick", timeout=None):
	what = {"add": "one add(k,v)", "get": "one get(k)", "gos": "one get_or_set(k, loader Ok/Err symbolic)", "survive": "get(k) hit, then add(k') with k' != k"}[kind]
	return H(f"c20_{kind}_{ln}_{cap}", CORE, c20, tier=tier, funcs=LC, timeout=timeout,
		bounds=f"inductive step from an ARBITRARY cache state with exactly {ln} entries and capacity {cap} satisfying the representation invariant; keys u8, values (key, u16 nonce), stamps u64: all symbolic",
		sample=f"{what} on LimitedCache{{cache: {ln} symbolic entries, max_length: {cap}, last_index: symbolic}}", stubs=["HashMap -> association-list model (vmap.rs)"])


PROPS["C20"] = {
	"harnesses": [
		H("c20_base", CORE, c20, funcs=["LimitedCache::with_maximum_size"], bounds="byte budget: any usize >= element size", sample="maximum_size symbolic", stubs=["HashMap -> association-list model (vmap.rs)"]),
		H("c20_base_too_small", CORE, c20, funcs=["LimitedCache::with_maximum_size"], bounds="byte budget < element size: must panic (kani::should_panic)", sample="maximum_size symbolic", expect_cover=False, should_panic=True),
		_c20("add", 0, 1), _c20("add", 1, 1), _c20("add", 1, 2), _c20("add", 2, 2), _c20("add", 2, 3), _c20("add", 3, 3),
		_c20("get", 1, 1), _c20("get", 2, 3), _c20("get", 3, 3),
		_c20("gos", 0, 1), _c20("gos", 1, 1), _c20("gos", 2, 2), _c20("gos", 2, 3), _c20("gos", 3, 3),
		_c20("survive", 2, 2), _c20("survive", 2, 3), _c20("survive", 3, 3),
		_c20("add", 3, 4, "thorough"), _c20("add", 4, 4, "thorough"), _c20("get", 4, 4, "thorough"), _c20("gos", 4, 4, "thorough"), _c20("survive", 4, 4, "thorough"),
		_c20("add", 5, 5, "thorough", 2400), _c20("get", 5, 5, "thorough", 2400), _c20("gos", 5, 5, "thorough", 2400), _c20("survive", 5, 5, "thorough", 2400),
		_c20("add", 6, 6, "thorough", 2400), _c20("survive", 6, 6, "thorough", 2400),
		_c20("get", 6, 6, "thorough", 2400), _c20("gos", 6, 6, "thorough", 2400),
		_c20("add", 7, 8, "thorough", 2400), _c20("add", 8, 8, "thorough", 2400), _c20("get", 8, 8, "thorough", 2400), _c20("gos", 8, 8, "thorough", 2400), _c20("survive", 8, 8, "thorough", 2400),
	],
	"meta": {
		"assumptions": ["std::collections::HashMap replaced by an association-list model with the same API (hashing and Hash impls are outside the claim)",
			"representation invariant I: len <= max_length, keys distinct, every value carries its key, stamps <= last_index, non-zero stamps pairwise distinct; "
			"shown inductive by the step harnesses and established by with_maximum_size (c20_base), hence holds after histories of any length"],
		"out": ["capacities above 4 (the code has no capacity-dependent branch besides len >= max_length and len/2)", "hashing", "byte budget -> capacity for other K,V", "last_index within 8 of u64::MAX"],
	},
}

PROPS["C15"]["harnesses"] += [
	H("c15_h6_count", CORE, c15, funcs=["TileBBox::width", "TileBBox::height", "TileBBox::count_tiles"], bounds=ALL_LEVELS, sample=BBOX, tier="thorough", timeout=2400),
	H("c15_h6_count_product", CORE, c15, funcs=["TileBBox::width", "TileBBox::height", "TileBBox::count_tiles"], bounds=ALL_LEVELS + "; one side <= 8 tiles, the other unbounded", sample=BBOX),
	H("c15_h7_index_small", CORE, c15, funcs=["TileBBox::get_tile_index2", "TileBBox::get_tile_index3", "TileBBox::get_coord2_by_index", "TileBBox::get_coord3_by_index"],
		bounds=ALL_LEVELS + "; box at most 8x8 tiles at any position; index any u32", sample=BBOX + "; tile p; index i"),
	H("c15_h8_iter_coords", CORE, c15, funcs=["TileBBox::iter_coords", "TileBBox::into_iter_coords"], bounds=ALL_LEVELS + "; box at most 3x3 tiles", sample=BBOX, tier="thorough", timeout=2400),
	H("c15_h8_iter_coords_2x2", CORE, c15, funcs=["TileBBox::iter_coords", "TileBBox::into_iter_coords"], bounds=ALL_LEVELS + "; box at most 2x2 tiles", sample=BBOX),
	H("c15_h9_grid_s1_2x1", CORE, c15, funcs=["TileBBox::iter_bbox_grid", "TileBBox::scale_down", "TileBBox::iter_coords"], bounds=ALL_LEVELS + "; grid size 1 (concrete), box at most 2x1 tiles at any position (at most 2 cells)", sample=BBOX + "; tile p", stubs=["u32::pow(2,z) -> 1<<z"], tier="quick", timeout=None),
	H("c15_h9_grid_s1_1x2", CORE, c15, funcs=["TileBBox::iter_bbox_grid", "TileBBox::scale_down", "TileBBox::iter_coords"], bounds=ALL_LEVELS + "; grid size 1 (concrete), box at most 1x2 tiles at any position (at most 2 cells)", sample=BBOX + "; tile p", stubs=["u32::pow(2,z) -> 1<<z"], tier="thorough", timeout=None),
	H("c15_h9_grid_s2_2x1", CORE, c15, funcs=["TileBBox::iter_bbox_grid", "TileBBox::scale_down", "TileBBox::iter_coords"], bounds=ALL_LEVELS + "; grid size 2 (concrete), box at most 2x1 tiles at any position (at most 2 cells)", sample=BBOX + "; tile p", stubs=["u32::pow(2,z) -> 1<<z"], tier="thorough", timeout=None),
	H("c15_h9_grid_s2_1x2", CORE, c15, funcs=["TileBBox::iter_bbox_grid", "TileBBox::scale_down", "TileBBox::iter_coords"], bounds=ALL_LEVELS + "; grid size 2 (concrete), box at most 1x2 tiles at any position (at most 2 cells)", sample=BBOX + "; tile p", stubs=["u32::pow(2,z) -> 1<<z"], tier="quick", timeout=None),
	H("c15_h9_grid_s256_256x1", CORE, c15, funcs=["TileBBox::iter_bbox_grid", "TileBBox::scale_down", "TileBBox::iter_coords"], bounds=ALL_LEVELS + "; grid size 256 (concrete), box at most 256x1 tiles at any position (at most 2 cells)", sample=BBOX + "; tile p", stubs=["u32::pow(2,z) -> 1<<z"], tier="quick", timeout=None),
	H("c15_h9_grid_s256_1x256", CORE, c15, funcs=["TileBBox::iter_bbox_grid", "TileBBox::scale_down", "TileBBox::iter_coords"], bounds=ALL_LEVELS + "; grid size 256 (concrete), box at most 1x256 tiles at any position (at most 2 cells)", sample=BBOX + "; tile p", stubs=["u32::pow(2,z) -> 1<<z"], tier="thorough", timeout=None),
	H("c15_h9_grid_s2_2x2", CORE, c15, funcs=["TileBBox::iter_bbox_grid", "TileBBox::scale_down", "TileBBox::iter_coords"], bounds=ALL_LEVELS + "; grid size 2 (concrete), box at most 2x2 tiles at any position (at most 2 cells)", sample=BBOX + "; tile p", stubs=["u32::pow(2,z) -> 1<<z"], tier="thorough", timeout=2400),
	H("c15_h9_grid_zero", CORE, c15, funcs=["TileBBox::iter_bbox_grid"], bounds=ALL_LEVELS, sample=BBOX),
]

# ------------------------------------------------------------------------------------------ C19 (core part)
c19c = "verif_kani::c19"
MON = "alloc::vec::from_elem (vec![0u8; n]) -> allocation monitor asserting n <= 8*input_len + 64"


def _pbf(name, n, fn, tier="quick"):
	return H(name, CORE, c19c, tier=tier, funcs=[f"ValueReader::{fn}", "ValueReaderSlice::get_sub_reader", "ValueReader::read_varint"],
		bounds=f"every byte string of exactly {n} bytes", sample=f"[u8; {n}] fully symbolic -> ValueReaderSlice::new_le -> {fn}", stubs=[MON])


PROPS["C19"] = {
	"harnesses": [
		_pbf("c19_varint_11", 11, "read_varint"), _pbf("c19_svarint_11", 11, "read_svarint"), _pbf("c19_pbf_key_11", 11, "read_pbf_key"),
		_pbf("c19_pbf_blob_4", 4, "read_pbf_blob"), _pbf("c19_pbf_blob_11", 11, "read_pbf_blob", "thorough"),
		_pbf("c19_pbf_string_3", 3, "read_pbf_string"), _pbf("c19_pbf_string_11", 11, "read_pbf_string", "thorough"),
		_pbf("c19_pbf_packed_4", 4, "read_pbf_packed_uint32"), _pbf("c19_pbf_packed_11", 11, "read_pbf_packed_uint32", "thorough"),
		_pbf("c19_pbf_sub_reader_11", 11, "get_pbf_sub_reader"),
	] + [
		H(f"c19_pbf_{k}_overlong", CORE, c19c, funcs=[f"ValueReader::{fn}", "ValueReaderSlice::get_sub_reader", "ValueReader::read_varint"],
			bounds="every 11-byte string whose leading varint announces a length > 11 (up to u64::MAX)", sample=f"[u8; 11] symbolic, length decoded by a reference varint reader -> {fn}", stubs=[MON], timeout=900)
		for k, fn in [("packed", "read_pbf_packed_uint32"), ("blob", "read_pbf_blob"), ("string", "read_pbf_string"), ("sub_reader", "get_pbf_sub_reader")]
	] + [
		H("c19_get_sub_reader_any_length", CORE, c19c, funcs=["ValueReaderSlice::get_sub_reader"], bounds="8-byte buffer, any position 0..=8, any announced length (u64)", sample="position, length: u64 symbolic", timeout=900),
		H("c19_sub_reader_any_length", CORE, c19c, funcs=["ValueReaderSlice::get_sub_reader", "ValueReader::read_blob", "ValueReader::read_string"],
			bounds="8-byte buffer, any position 0..8, any announced length (u64)", sample="position, length: u64 symbolic", stubs=[MON]),
	],
	"meta": {
		"assumptions": ["vec![0u8; n] is routed through an allocation monitor (n <= 8*input_len + 64) instead of the allocator"],
		"out": ["parse_vpl (C18)", "number parsing (dec2flt)", "opening whole MBTiles/tar/directory containers (SQLite, tar, file system)", "real decompressors", "stack depth of the recursive JSON parser"],
	},
}

PYR = "TileBBoxPyramid whose 32 level boxes are all symbolic (each from the box generator); symbolic level l; symbolic tile p"
PROPS["C15"]["harnesses"] += [
	H("c15_h11_pyramid_intersect", CORE, "verif_kani::c15pyr", funcs=["TileBBoxPyramid::intersect", "TileBBox::intersect_bbox"], bounds=ALL_LEVELS, sample="two " + PYR),
	H("c15_h11_pyramid_intersect_gapped", CORE, "verif_kani::c15pyr", funcs=["TileBBoxPyramid::intersect", "TileBBox::intersect_bbox"], bounds=ALL_LEVELS + "; second operand concrete, populated at levels 2, 5, 31 only", sample=PYR, timeout=900),
	H("c15_h11_pyramid_include_l0", CORE, "verif_kani::c15pyr", funcs=["TileBBoxPyramid::include_bbox_pyramid", "TileBBoxPyramid::iter_levels", "TileBBox::include_bbox"], bounds=ALL_LEVELS + "; the included pyramid is symbolic on level 0 and empty elsewhere; the receiving pyramid symbolic on all 32 levels", sample=PYR + "; second pyramid with one symbolic level", stubs=[POW], tier="thorough", timeout=900),
	H("c15_h11_pyramid_include_l7", CORE, "verif_kani::c15pyr", funcs=["TileBBoxPyramid::include_bbox_pyramid", "TileBBoxPyramid::iter_levels", "TileBBox::include_bbox"], bounds=ALL_LEVELS + "; the included pyramid is symbolic on level 7 and empty elsewhere; the receiving pyramid symbolic on all 32 levels", sample=PYR + "; second pyramid with one symbolic level", stubs=[POW], tier="quick", timeout=900),
	H("c15_h11_pyramid_include_l31", CORE, "verif_kani::c15pyr", funcs=["TileBBoxPyramid::include_bbox_pyramid", "TileBBoxPyramid::iter_levels", "TileBBox::include_bbox"], bounds=ALL_LEVELS + "; the included pyramid is symbolic on level 31 and empty elsewhere; the receiving pyramid symbolic on all 32 levels", sample=PYR + "; second pyramid with one symbolic level", stubs=[POW], tier="thorough", timeout=900),
	H("c15_h11_pyramid_include_one", CORE, "verif_kani::c15pyr", funcs=["TileBBoxPyramid::include_bbox", "TileBBoxPyramid::include_coord"], bounds=ALL_LEVELS, sample=PYR + "; box; coordinate", tier="thorough", timeout=1800),
	H("c15_h11_pyramid_contains", CORE, "verif_kani::c15pyr", funcs=["TileBBoxPyramid::contains_coord"], bounds=ALL_LEVELS + "; z any u8", sample=PYR + "; coordinate"),
	H("c15_h11_pyramid_overlaps_l0", CORE, "verif_kani::c15pyr", funcs=["TileBBoxPyramid::overlaps_bbox", "TileBBox::overlaps_bbox"], bounds="box at level 0 (concrete per instance), coordinates full width; pyramid symbolic on all levels", sample=PYR + "; box", stubs=[POW], tier="thorough"),
	H("c15_h11_pyramid_overlaps_l9", CORE, "verif_kani::c15pyr", funcs=["TileBBoxPyramid::overlaps_bbox", "TileBBox::overlaps_bbox"], bounds="box at level 9 (concrete per instance), coordinates full width; pyramid symbolic on all levels", sample=PYR + "; box", stubs=[POW], tier="quick"),
	H("c15_h11_pyramid_overlaps_l31", CORE, "verif_kani::c15pyr", funcs=["TileBBoxPyramid::overlaps_bbox", "TileBBox::overlaps_bbox"], bounds="box at level 31 (concrete per instance), coordinates full width; pyramid symbolic on all levels", sample=PYR + "; box", stubs=[POW], tier="thorough"),

	H("c15_h11_pyramid_zoom_min", CORE, "verif_kani::c15pyr", funcs=["TileBBoxPyramid::get_zoom_min", "TileBBoxPyramid::is_empty"], bounds=ALL_LEVELS, sample=PYR),
	H("c15_h11_pyramid_zoom_max", CORE, "verif_kani::c15pyr", funcs=["TileBBoxPyramid::get_zoom_max"], bounds=ALL_LEVELS, sample=PYR),
	H("c15_h11_pyramid_zoom_limits", CORE, "verif_kani::c15pyr", funcs=["TileBBoxPyramid::set_zoom_min", "TileBBoxPyramid::set_zoom_max"], bounds=ALL_LEVELS + "; zoom limits any u8", sample=PYR + "; zmin, zmax"),
	H("c15_h11_pyramid_transform", CORE, "verif_kani::c15pyr", funcs=["<TileBBoxPyramid as TransformCoord>::flip_y", "<TileBBoxPyramid as TransformCoord>::swap_xy"], bounds=ALL_LEVELS, sample=PYR, stubs=["u32::pow(2,z) -> 1<<z"]),
	H("c15_h11_pyramid_eq", CORE, "verif_kani::c15pyr", funcs=["<TileBBoxPyramid as PartialEq>::eq"], bounds=ALL_LEVELS, sample="two " + PYR),
	H("c15_h11_pyramid_ctor", CORE, "verif_kani::c15pyr", funcs=["TileBBoxPyramid::new_full", "TileBBoxPyramid::new_empty"], bounds=ALL_LEVELS + "; max zoom any u8", sample="max_zoom_level: u8", stubs=["u32::pow(2,z) -> 1<<z"]),
]

# ------------------------------------------------------------------------------------------ container crate
CONT = "versatiles_container"
CONV = "verif_conv"  # converter.rs + tile_converter.rs mounted alone (small dyn-dispatch candidate set)
VT = "container::versatiles::types"
PT = "container::pmtiles::types"

PROPS["C19"]["harnesses"] += [
	H("c19_block_definition_from_blob", CONT, f"{VT}::block_definition::kani_harness", funcs=["BlockDefinition::from_blob", "TileBBox::new"], bounds="every 33-byte string", sample="[u8; 33] fully symbolic", stubs=[POW]),
	H("c19_block_definition_truncated", CONT, f"{VT}::block_definition::kani_harness", funcs=["BlockDefinition::from_blob"], bounds="every string of 0..=32 bytes", sample="[u8; n], n symbolic <= 32", stubs=[POW]),
	H("c19_file_header_from_blob", CONT, f"{VT}::file_header::kani_harness", funcs=["FileHeader::from_blob"], bounds="every 66-byte string", sample="[u8; 66] fully symbolic"),
	H("c19_file_header_wrong_length", CONT, f"{VT}::file_header::kani_harness", funcs=["FileHeader::from_blob"], bounds="every string of 0..=70 bytes except 66", sample="[u8; n]"),
	H("c19_tile_index_from_blob_0", CONT, f"{VT}::tile_index::kani_harness", funcs=["TileIndex::from_blob"], bounds="empty string", sample="[u8; 0]", expect_cover=False),
	H("c19_tile_index_from_blob_11", CONT, f"{VT}::tile_index::kani_harness", funcs=["TileIndex::from_blob"], bounds="every 11-byte string", sample="[u8; 11]"),
	H("c19_tile_index_from_blob_12", CONT, f"{VT}::tile_index::kani_harness", funcs=["TileIndex::from_blob"], bounds="every 12-byte string", sample="[u8; 12]"),
	H("c19_tile_index_from_blob_13", CONT, f"{VT}::tile_index::kani_harness", funcs=["TileIndex::from_blob"], bounds="every 13-byte string", sample="[u8; 13]"),
	H("c19_tile_index_from_blob_24", CONT, f"{VT}::tile_index::kani_harness", funcs=["TileIndex::from_blob"], bounds="every 24-byte string", sample="[u8; 24]", tier="thorough"),
	H("c19_tile_index_from_blob_48", CONT, f"{VT}::tile_index::kani_harness", funcs=["TileIndex::from_blob"], bounds="every 48-byte string", sample="[u8; 48]", tier="thorough", timeout=1800),
	H("c19_tile_index_from_blob_120", CONT, f"{VT}::tile_index::kani_harness", funcs=["TileIndex::from_blob"], bounds="every 120-byte string", sample="[u8; 120]", tier="thorough", timeout=1800),
	H("c19_block_index_from_blob_0", CONT, f"{VT}::block_index::kani_harness", funcs=["BlockIndex::from_blob"], bounds="empty string", sample="[u8; 0]", stubs=[POW, "HashMap model"]),
	H("c19_block_index_from_blob_32", CONT, f"{VT}::block_index::kani_harness", funcs=["BlockIndex::from_blob"], bounds="every 32-byte string", sample="[u8; 32]", stubs=[POW, "HashMap model"]),
	H("c19_block_index_from_blob_33", CONT, f"{VT}::block_index::kani_harness", funcs=["BlockIndex::from_blob", "BlockDefinition::from_blob", "Blob::read_range"], bounds="every 33-byte string", sample="[u8; 33]", stubs=[POW, "HashMap model"]),
	H("c19_block_index_from_blob_66", CONT, f"{VT}::block_index::kani_harness", funcs=["BlockIndex::from_blob", "BlockDefinition::from_blob", "Blob::read_range"], bounds="every 66-byte string", sample="[u8; 66]", stubs=[POW, "HashMap model"], tier="thorough"),
	H("c19_block_index_from_blob_99", CONT, f"{VT}::block_index::kani_harness", funcs=["BlockIndex::from_blob", "BlockDefinition::from_blob", "Blob::read_range"], bounds="every 99-byte string", sample="[u8; 99]", stubs=[POW, "HashMap model"], tier="thorough"),
	H("c19_header_v3_deserialize", CONT, f"{PT}::header_v3::kani_harness", funcs=["HeaderV3::deserialize", "PMTilesCompression::from_u8", "PMTilesType::from_u8"], bounds="every 127-byte string", sample="[u8; 127]"),
	H("c19_header_v3_wrong_length", CONT, f"{PT}::header_v3::kani_harness", funcs=["HeaderV3::deserialize"], bounds="every string of 0..=130 bytes except 127", sample="[u8; n]"),
	H("c19_entries_v3_any_0", CONT, f"{PT}::entries_v3::kani_harness", funcs=["EntriesV3::from_blob"], bounds="empty string", sample="[u8; 0]", expect_cover=False),
	H("c19_entries_v3_any_1", CONT, f"{PT}::entries_v3::kani_harness", funcs=["EntriesV3::from_blob"], bounds="every 1-byte string", sample="[u8; 1]"),
	H("c19_entries_v3_any_2", CONT, f"{PT}::entries_v3::kani_harness", funcs=["EntriesV3::from_blob"], bounds="every 2-byte string", sample="[u8; 2]"),
	H("c19_entries_v3_any_3", CONT, f"{PT}::entries_v3::kani_harness", funcs=["EntriesV3::from_blob"], bounds="every 3-byte string", sample="[u8; 3]", tier="thorough", timeout=1800),
	H("c19_entries_v3_count1_4", CONT, f"{PT}::entries_v3::kani_harness", funcs=["EntriesV3::from_blob"], bounds="shape: count byte = 1, then every 4-byte body", sample="[1, b1..b4]"),
	H("c19_entries_v3_count1_5", CONT, f"{PT}::entries_v3::kani_harness", funcs=["EntriesV3::from_blob"], bounds="shape: count byte = 1, then every 5-byte body", sample="[1, b1..b5]", tier="thorough"),
	H("c19_entries_v3_count2_8", CONT, f"{PT}::entries_v3::kani_harness", funcs=["EntriesV3::from_blob"], bounds="shape: count byte = 2, then every 8-byte body", sample="[2, b1..b8]", tier="thorough", timeout=1800),
	H("c19_tile_id_to_coord_any", CONT, f"{PT}::tile_id::kani_harness", funcs=["tile_id_to_coord"], bounds="every u64 id", sample="tile id: u64"),
	H("c19_coord_to_tile_id_bad_zoom", CONT, f"{PT}::tile_id::kani_harness", funcs=["coord_to_tile_id"], bounds="every x, y: u32, z >= 32", sample="x, y, z"),
	H("c19_tile_id_to_coord_too_large", CONT, f"{PT}::tile_id::kani_harness", funcs=["tile_id_to_coord"], bounds="every id >= (4^32 - 1) / 3 (beyond the last tile of zoom 31)", sample="id: u64", timeout=900),
]

PROPS["C01"] = {
	"harnesses": [
		H("c01_file_header_layout", CONT, f"{VT}::file_header::kani_harness", funcs=["FileHeader::to_blob", "FileHeader::from_blob"], bounds="all 10 tile formats x 3 compressions, every value of every field", sample="FileHeader with all fields symbolic"),
		H("c01_block_definition_layout", CONT, f"{VT}::block_definition::kani_harness", funcs=["BlockDefinition::new", "BlockDefinition::as_blob", "BlockDefinition::from_blob", "BlockDefinition::get_coord3", "BlockDefinition::get_global_bbox"],
			bounds="every grid cell (non-empty box inside one 256x256 block) at every level 0..=31; offsets/lengths < 2^62", sample="cell box, tiles range, index length; tile p of the cell", stubs=[POW]),
		H("c01_tile_index_layout_1", CONT, f"{VT}::tile_index::kani_harness", funcs=["TileIndex::as_blob", "TileIndex::from_blob", "TileIndex::add_offset", "ByteRange::shift_forward", "ByteRange::shift_backward"], bounds="1 entry, offsets < 2^62, lengths u32", sample="TileIndex of 1 symbolic entry"),
		H("c01_tile_index_layout_2", CONT, f"{VT}::tile_index::kani_harness", funcs=["TileIndex::as_blob", "TileIndex::from_blob", "TileIndex::add_offset"], bounds="2 entries", sample="TileIndex of 2 symbolic entries"),
		H("c01_tile_index_layout_4", CONT, f"{VT}::tile_index::kani_harness", funcs=["TileIndex::as_blob", "TileIndex::from_blob", "TileIndex::add_offset"], bounds="4 entries", sample="TileIndex of 4 symbolic entries", tier="thorough"),
		H("c01_header_v3_layout", CONT, f"{PT}::header_v3::kani_harness", funcs=["HeaderV3::serialize", "HeaderV3::deserialize"], bounds="every value of every header field (compression codes 0..=4, type codes 0..=5)", sample="HeaderV3 with all fields symbolic"),
		H("c01_pmtiles_codes", CONT, f"{PT}::header_v3::kani_harness", funcs=["PMTilesCompression::from_value", "PMTilesCompression::as_value", "PMTilesType::from_value", "PMTilesType::as_value"], bounds="all codes", sample="code bytes"),
		H("c01_entries_serialize_1", CONT, f"{PT}::entries_v3::kani_harness", funcs=["EntriesSliceV3::serialize_entries", "EntriesV3::from_blob"], bounds="1 entry, every field < 2^7 (one-byte varints; the varint codec itself is decided for all u64 by c11_varint_roundtrip)", sample="1 symbolic entry"),
		H("c01_entries_serialize_1w", CONT, f"{PT}::entries_v3::kani_harness", funcs=["EntriesSliceV3::serialize_entries", "EntriesV3::from_blob"], bounds="1 entry, every field < 2^14 (two-byte varints)", sample="1 symbolic entry", tier="thorough", timeout=2400),
		H("c01_entries_serialize_2", CONT, f"{PT}::entries_v3::kani_harness", funcs=["EntriesSliceV3::serialize_entries", "EntriesV3::from_blob"], bounds="2 sorted entries, every field < 2^7", sample="2 symbolic entries"),
		H("c01_entries_serialize_3", CONT, f"{PT}::entries_v3::kani_harness", funcs=["EntriesSliceV3::serialize_entries", "EntriesV3::from_blob"], bounds="3 sorted entries, every field < 2^7", sample="3 symbolic entries", tier="thorough", timeout=2400),
	] + [
		H(f"c01_tile_id_diff_z{z}", CONT, f"{PT}::tile_id::kani_harness", funcs=["coord_to_tile_id", "rotate"], bounds=f"zoom {z}, every x, y: u32 (incl. out of range)", sample="x, y symbolic", tier=t)
		for z, t in [(0, "quick"), (1, "quick"), (2, "thorough"), (5, "thorough"), (8, "quick"), (12, "thorough"), (16, "thorough"), (24, "thorough"), (31, "quick")]
	] + [
		H(f"c01_tile_id_roundtrip_z{z}", CONT, f"{PT}::tile_id::kani_harness", funcs=["coord_to_tile_id", "tile_id_to_coord", "rotate"], bounds=f"zoom {z}, every x, y < 2^{z}", sample="x, y symbolic", tier=t)
		for z, t in [(0, "quick"), (1, "quick"), (3, "quick"), (6, "thorough"), (10, "thorough"), (14, "thorough"), (20, "thorough"), (31, "thorough")]
	],
	"meta": {
		"assumptions": ["layout oracles are big/little-endian field readers and a varint codec written in the harness from the published versatiles v02 / PMTiles v3 layouts"],
		"out": ["operation order and positions of the async writers", "de-duplication of payloads < 1000 bytes", "root/leaf split at 16 KiB (depends on gzip output sizes)", "metadata", "MBTiles entirely (row flip sits inside SQL parameter expressions)", "tar and directory I/O", "> 16384 tiles", "tile id round trip at zoom levels other than the listed instances", "PMTiles directory serialisation (EntriesV3::serialize: no verdict within reach)"],
	},
}

PROPS["C16"] = {
	"harnesses": [
		H(f"c16_find_tile_{n}", CONT, f"{PT}::entries_v3::kani_harness", funcs=["EntriesV3::find_tile"], bounds=f"{n} sorted entries with symbolic ids (< 2^62), run lengths (u32, incl. 0 = leaf pointer), ranges; target id any u64", sample=f"{n} symbolic entries + target id", tier=t)
		for n, t in [(0, "quick"), (1, "quick"), (2, "quick"), (3, "quick"), (5, "thorough"), (8, "thorough"), (13, "thorough"), (16, "thorough")]
	] + [
		H(f"c16_entries_decode_{n}", CONT, f"{PT}::entries_v3::kani_harness", funcs=["EntriesV3::from_blob"], bounds=f"{n} sorted entries, every field < 2^{7 if not str(n).endswith('w') else 14}, encoder may or may not use the contiguous-offset shorthand", sample=f"directory of {n} entries written by the harness' own varint encoder", tier=t, timeout=to, mem_gb=(44 if str(n) == "3" else None))
		for n, t, to in [(1, "quick", None), ("1w", "thorough", 2400), (2, "quick", None), (3, "thorough", 2400)]
	] + [
		H("c16_block_index_sparse", CONT, f"{VT}::block_index::kani_harness", funcs=["BlockIndex::from_blob", "BlockDefinition::from_blob", "BlockIndex::get_block", "BlockIndex::get_bbox_pyramid", "TileBBoxPyramid::include_bbox"],
			bounds="sparse index of 2 distinct blocks at symbolic levels/positions with partial local boxes", sample="two symbolic block records written by the harness' own encoder", stubs=[POW, "HashMap model"], timeout=900),
	] + [
		H(f"c16_block_index_sparse_{kind}_{za}_{zb}", CONT, f"{VT}::block_index::kani_harness", funcs=["BlockIndex::from_blob", "BlockDefinition::from_blob", "BlockIndex::get_block"] + (["BlockIndex::get_bbox_pyramid", "TileBBoxPyramid::include_bbox"] if kind == "coverage" else []),
			bounds=f"sparse index of 2 distinct blocks at levels {za} and {zb} (concrete per instance), symbolic block positions (not neighbours in general), partial local boxes, symbolic byte ranges (u32 offset and length, u16 index length; may overlap or coincide)", sample="two symbolic block records written by the harness' own encoder", stubs=[POW, "HashMap model"], timeout=900, tier=t)
		for kind, za, zb, t in [("accept", 12, 12, "quick"), ("accept", 5, 12, "quick"), ("accept", 31, 31, "thorough"), ("coverage", 12, 12, "thorough"), ("coverage", 5, 12, "thorough")]
	],
	"meta": {
		"assumptions": ["HashMap model in BlockIndex"],
		"out": ["MBTiles, tar, directory containers", "three-level PMTiles trees", "real compression", "whole VersaTilesReader/PMTilesReader runs (async I/O)"],
	},
}

c15g = "verif_kani::c15geo"
LIBM = "f64::tan, f64::ln -> monotone nondeterministic model consistent across calls; f64::powi(2,z) -> exact table"
PROPS["C15"]["harnesses"] += [
	H(f"c15_h12_geo_x_z{z}", CORE, c15g, funcs=["TileBBox::from_geo", "TileCoord2::from_geo", "GeoBBox::check", "TileBBox::new"], bounds=f"zoom {z}; every west <= east in [-180, 180] (all f64 bit patterns); latitude fixed to 0", sample="west, east: f64 symbolic", stubs=[LIBM, POW], tier=t)
	for z, t in [(0, "quick"), (1, "thorough"), (3, "quick"), (9, "thorough"), (16, "thorough")]
] + [
	H(f"c15_h13_geo_y_z{z}", CORE, c15g, funcs=["TileBBox::from_geo", "TileCoord2::from_geo", "GeoBBox::check", "TileBBox::new"], bounds=f"zoom {z}; every south <= north in [-90, 90]; longitude fixed to 0; tan/ln by the monotone model", sample="south, north: f64 symbolic", stubs=[LIBM, POW], tier=t)
	for z, t in [(0, "quick"), (1, "thorough"), (3, "quick"), (9, "thorough"), (16, "thorough"), (24, "thorough"), (31, "quick")]
]
PROPS["C15"]["meta"]["assumptions"].append("geo harnesses: tan/ln replaced by nondeterministic functions constrained to be monotone and consistent across calls (+ sign/range facts); the y claims hold given a monotone libm")

# ------------------------------------------------------------------------------------------ C06 / C04
c06 = "verif_kani::c06"
c04 = "verif_kani::c04"
CODEC = "codec model: compress_X(p) = TAG_X ++ p, decompress_X inverse, Err otherwise (lossless-codec contract; flate2/brotli outside the claim)"
ECHO = "echo source whose content is exactly its advertised pyramid (one symbolic box at one symbolic level) and whose payloads are their own coordinates"
PROPS["C06"] = {
	"harnesses": [
		H("c06_h1_coverage", CONV, c06, funcs=["TilesConvertReader::new_from_reader", "<TileBBoxPyramid as TransformCoord>::flip_y", "<TileBBoxPyramid as TransformCoord>::swap_xy", "TileBBoxPyramid::intersect"],
			bounds="all 4 flag combinations, level and boxes symbolic (full-width), optional requested pyramid; coordinate c any u32 x u32 x level", sample=ECHO + "; flags; optional requested box; coordinate c", stubs=[POW], timeout=900, unwindset=PYR_LOOPS),
	] + [
		H(f"c06_h2_lookup_{n}", CONV, c06, funcs=["TilesConvertReader::new_from_reader", "<TilesConvertReader as TilesReaderTrait>::get_tile_data", "<TileCoord3 as TransformCoord>::flip_y", "<TileCoord3 as TransformCoord>::swap_xy", "TileConverter::process_blob"],
			bounds=f"flags and zoom level {n} (concrete per instance); source box symbolic; requested coordinate any x, y: u32 (incl. out of range) at that level", sample=ECHO + "; coordinate c", stubs=[POW, CODEC], timeout=1200, unwindset=PYR_LOOPS, tier=t)
		for n, t in [("plain_l3", "quick"), ("flip_l3", "quick"), ("swap_l3", "quick"), ("flip_swap_l3", "quick"), ("flip_swap_l31", "thorough")]
	] + [
		H("c06_h3_stream", CONV, c06, funcs=["<TilesConvertReader as TilesReaderTrait>::get_bbox_tile_stream", "TileStream::map_coord", "TileConverter::process_stream", "<TileBBox as TransformCoord>::flip_y", "<TileBBox as TransformCoord>::swap_xy"],
			bounds="all 4 flag combinations; requested box at most 2x2 tiles at any position", sample=ECHO + "; flags; requested box q", stubs=[POW, "TileStream::map_blob_parallel -> sequential map"], tier="thorough", timeout=2400, unwindset=PYR_LOOPS),
		H("c06_add_border", CORE, c15, funcs=["TileBBox::add_border"], bounds=ALL_LEVELS + "; border widths any u32", sample=BBOX + "; four border widths"),
	],
	"meta": {
		"assumptions": ["source = echo reader (TilesReaderTrait impl in the harness) whose tiles are exactly its advertised coverage", "hand-rolled block_on: the futures involved never suspend"],
		"out": ["the writers behind `convert` (C01)", "the `serve` CLI wiring of the same flags (shares TilesConvertReader)", "CLI option -> pyramid glue in convert.rs (bin target)", "antimeridian/pole geometry"],
	},
}
PROPS["C04"] = {
	"harnesses": [
	] + [
		H(f"c04_recompress_{a}_{b}", CONV, c04, funcs=["TileConverter::new_tile_recompressor", "TileConverter::new_decompressor", "TileConverter::process_blob", "FnConv::run", "utils::compress", "utils::decompress", "utils::recompress"],
			bounds=f"source {a} -> target {b} (concrete per instance), force in {{false, true}}, every 2-byte payload", sample="payload bytes", stubs=[CODEC], timeout=900)
		for a in "ugb" for b in "ugb"
	] + [
	] + [
		H(f"c04_declared_{a}_{b}", CONV, "container::converter::kani_harness", funcs=["TilesConvertReader::new_from_reader", "TileConverter::new_tile_recompressor", "TileConverter::process_blob"],
			bounds=f"source {a}, requested {b} (concrete per instance); force symbolic; every 2-byte payload", sample="force, payload", stubs=[CODEC, POW], timeout=900, unwindset=PYR_LOOPS, tier=t)
		for a, b, t in [("u", "keep", "quick"), ("g", "keep", "quick"), ("b", "keep", "thorough"), ("u", "g", "thorough"), ("u", "b", "quick"), ("g", "u", "quick"), ("g", "g", "thorough"), ("g", "b", "thorough"), ("b", "u", "thorough"), ("b", "g", "quick"), ("b", "b", "quick"), ("u", "u", "thorough")]
	],
	"meta": {
		"assumptions": [CODEC],
		"out": ["real gzip/brotli round trips", "payloads > 3 bytes (the code never inspects payload bytes; the codec model is length-agnostic)", "metadata compression inside the async writers"],
	},
}

# ------------------------------------------------------------------------------------------ geometry crate: C11 / C10 / C19
GEO = "versatiles_geometry"
c11 = "vector_tile::verif_c11"
PROPS["C11"] = {
	"harnesses": [
		H("c11_varint_roundtrip", CORE, c19c, funcs=["ValueWriter::write_varint", "ValueReader::read_varint"], bounds="every u64", sample="v: u64"),
		H("c11_svarint_roundtrip", CORE, c19c, funcs=["ValueWriter::write_svarint", "ValueReader::read_svarint"], bounds="every i64", sample="v: i64"),
	] + [
		H(f"c11_value_{k}", GEO, c11, funcs=["<GeoValue as GeoValuePBF>::to_blob", "<GeoValue as GeoValuePBF>::read"], bounds=b, sample="value payload symbolic", stubs=[MON])
		for k, b in [("uint", "every u64"), ("int", "every i64"), ("bool", "both"), ("float", "every f32 bit pattern"), ("double", "every f64 bit pattern"), ("string", "ASCII strings of 0..=2 bytes")]
	] + [
		H("c11_value_read_kinds", GEO, c11, funcs=["<GeoValue as GeoValuePBF>::read"], bounds="one Value message field: every (field number u32, wire type u8) and every primitive payload (u64 varint, i64 zigzag, f32/f64 bit pattern); primitive reads answered by a scripted ValueReader", sample="(field, wire), payloads", stubs=[MON]),
		H("c11_value_read_empty", GEO, c11, funcs=["<GeoValue as GeoValuePBF>::read"], bounds="empty Value message", sample="-", stubs=[MON]),
		H("c11_filter_map_order_3", GEO, c11, funcs=["VectorTileLayer::filter_map_properties", "PropertyManager::from_iter"], bounds="layer of 3 features without tags, symbolic ids (Option<u64>), symbolic keep/remove mask applied in call order", sample="ids, mask", stubs=[MON, "HashMap model"]),
		H("c11_filter_map_order_4", GEO, c11, funcs=["VectorTileLayer::filter_map_properties", "PropertyManager::from_iter"], bounds="layer of 4 features without tags, symbolic ids, symbolic mask", sample="ids, mask", stubs=[MON, "HashMap model"], tier="thorough"),
	] + [
		H(f"c11_value_write_{k}", GEO, c11, funcs=["<GeoValue as GeoValuePBF>::to_blob", "ValueWriter::write_pbf_key", "ValueWriter::write_varint", "ValueWriter::write_svarint"], bounds=b + "; bytes decoded by a reference protobuf reader in the harness", sample="value payload symbolic", stubs=[MON])
		for k, b in [("uint", "every u64"), ("int", "every i64"), ("bool", "both"), ("float", "every f32 bit pattern"), ("double", "every f64 bit pattern")]
	] + [
		H(f"c11_layer_read_{nk}_{nv}", GEO, c11, funcs=["VectorTileLayer::read", "VectorTileFeature::read", "PropertyManager::add_key", "PropertyManager::add_val", "VTLPMap::add"],
			bounds=f"layer with {nk} key and {nv} value table entries chosen from 2-element pools (duplicates occur), 1 feature with symbolic id (<128), geometry type 0..=3, 1 opaque geometry byte, 1 symbolic tag pair, extent < 128",
			sample="layer bytes written by the harness' own MVT encoder from a symbolic ground truth", stubs=[MON, "HashMap model"], tier=t)
		for nk, nv, t in [(1, 1, "quick"), (2, 2, "quick")]
	] + [
		H(f"c11_layer_reencode_{nk}_{nv}", GEO, c11, funcs=["VectorTileLayer::read", "VectorTileLayer::to_blob", "VectorTileFeature::to_blob"],
			bounds=f"as c11_layer_read_{nk}_{nv}; read -> to_blob -> read compared with the ground truth", sample="ground truth as above", stubs=[MON, "HashMap model"], tier=t, timeout=1200)
		for nk, nv, t in [(1, 1, "quick"), (2, 2, "thorough")]
	],
	"meta": {
		"assumptions": ["HashMap model in PropertyManager/VTLPMap", "ground truth comes from an MVT encoder written in the harness from the 2.1 schema"],
		"out": ["geometry decoding to coordinates", "CSV reading", "tables > 2 entries", "real MVT files", "the vectortiles_update_properties operation itself (pipeline crate: Runner::run, BTreeMap-based GeoProperties)"],
	},
}
PROPS["C19"]["harnesses"] += [
	H("c19_vector_tile_any_0", GEO, c11, funcs=["VectorTile::from_blob"], bounds="empty input", sample="[u8; 0]", stubs=[MON], expect_cover=False),
	H("c19_vector_tile_any_2", GEO, c11, funcs=["VectorTile::from_blob", "VectorTileLayer::read"], bounds="every 2-byte string", sample="[u8; 2]", stubs=[MON]),
	H("c19_vector_tile_any_4", GEO, c11, funcs=["VectorTile::from_blob", "VectorTileLayer::read", "VectorTileFeature::read"], bounds="every 4-byte string", sample="[u8; 4]", stubs=[MON], timeout=900),
	H("c19_geo_value_any_0", GEO, c11, funcs=["<GeoValue as GeoValuePBF>::read"], bounds="empty input", sample="[u8; 0]", stubs=[MON], expect_cover=False),
	H("c19_geo_value_any_3", GEO, c11, funcs=["<GeoValue as GeoValuePBF>::read"], bounds="every 3-byte string", sample="[u8; 3]", stubs=[MON]),
	H("c19_geo_value_any_10", GEO, c11, funcs=["<GeoValue as GeoValuePBF>::read"], bounds="every 10-byte string", sample="[u8; 10]", stubs=[MON], tier="thorough", timeout=2400),
	H("c19_layer_any_3", GEO, c11, funcs=["VectorTileLayer::read"], bounds="every 3-byte string", sample="[u8; 3]", stubs=[MON]),
	H("c19_layer_any_5", GEO, c11, funcs=["VectorTileLayer::read", "VectorTileFeature::read"], bounds="every 5-byte string", sample="[u8; 5]", stubs=[MON], tier="thorough", timeout=2400),
]

# ------------------------------------------------------------------------------------------ server harness crate: C07 / C05
SRV = "verif_server"
c07 = "tools::server::sources::static_source_folder::kani_harness"
PATHM = "std::path model: Path::join / PathBuf::push / Path::starts_with replaced by byte-level reference implementations of their documented semantics; Path::is_dir nondeterministic; File::open = I/O boundary that resolves the path lexically, asserts it stays under the root and ends the execution; guess_mime constant"
PROPS["C07"] = {
	"harnesses": [
		H("c07_model_sanity", SRV, c07, funcs=["(model) Path::join", "(model) Path::starts_with"], bounds="fixed paths", sample="-", stubs=[PATHM]),
	] + [
		H(f"c07_folder_{n}_c{c}", SRV, c07, funcs=["Folder::get_data", "Url::new", "Url::as_path"],
			bounds=f"every request '/' + '{ch}' + {n - 1} bytes over the alphabet {{'/', '.', 'a', '%', '2', 'e', '\\\\'}}; root '/r'", sample=f"request path: first byte '{ch}' (concrete per instance), {n - 1} symbolic bytes", stubs=[PATHM], tier=t, timeout=to, expect_cover=False)
		for n, t, to in [(2, "quick", None), (3, "quick", None), (4, "quick", 900), (5, "thorough", 2400), (6, "thorough", 3000), (7, "thorough", 3000), (8, "thorough", 3000), (9, "thorough", 3000)]
		for c, ch in enumerate(["/", ".", "a", "%", "2", "e", "\\\\"])
	],
	"meta": {
		"assumptions": [PATHM, "symlinks inside the root are outside the claim", "hyper hands the raw request path through (no percent-decoding): '%2e' is not '.'"],
		"out": ["symlinks", "the tar root (exact-name map lookup, no path resolution)", "the HTTP layer / routing", "URL prefix stripping in StaticSource (string slicing only)"],
	},
}

# ------------------------------------------------------------------------------------------ C05 kernels
PROPS["C05"] = {
	"harnesses": [
		H(f"c05_h1_negotiation_{n}", CORE, "verif_kani::c05", funcs=["utils::optimize_compression", "TargetCompression::from_set", "TargetCompression::set_fast_compression", "TargetCompression::set_incompressible", "utils::compress", "utils::decompress"],
			bounds=f"stored compression {n} x all 8 allowed sets x 3 goals (unrolled) x every 2-byte payload", sample="payload bytes", stubs=[CODEC], timeout=900)
		for n in ["uncompressed", "gzip", "brotli"]
	],
	"meta": {
		"assumptions": [CODEC],
		"out": ["everything HTTP: routing, status line, header emission, Content-Type, connection handling", "Accept-Encoding header parsing (HeaderMap / str::contains)", "the real codecs"],
	},
}
c05s = "tools::server::sources::tile_source::kani_harness"
PROPS["C05"]["harnesses"] += [
	H(f"c05_h3_tile_request_{n}", SRV, c05s, funcs=["TileSource::get_data", "Url::as_vec", "TileCoord3::new"],
		bounds=f"every request '/' + {n} bytes over the alphabet {{'/', '0', '1', '7', '.', 'p'}}; source holds one tile at a symbolic coordinate", sample=f"request of {n} symbolic bytes; tile coordinate; payload byte", tier=t, timeout=to)
	for n, t, to in [(1, "quick", 900), (2, "quick", 900), (5, "thorough", 2400), (6, "thorough", 3000)]
]
PROPS["C05"]["meta"]["assumptions"].append("TileSource harness: hand-rolled block_on; tokio Mutex uncontended; reader = harness TilesReaderTrait impl holding one tile")
PROPS["C07"]["harnesses"] += [
	H(f"c07_url_parent_segment_{n}", SRV, "tools::server::utils::url::kani_harness", funcs=["Url::has_parent_segment", "str::split", "(model) has_parent_segment_bytes"],
		bounds=f"every '/' + {n} bytes over the alphabet: the real helper (str::split) equals the byte-level model the get_data harnesses use in its place", sample=f"url of {n} symbolic bytes", tier=t, timeout=to)
	for n, t, to in [(2, "quick", None), (3, "quick", None), (4, "quick", 900), (5, "thorough", 2400), (6, "thorough", 3000)]
]
PROPS["C07"]["meta"]["assumptions"].append("Url::has_parent_segment is replaced by a byte-level model inside the get_data harnesses; model == real helper is decided separately (c07_url_parent_segment_*)")

# ------------------------------------------------------------------------------------------ C13 (Engine B)
def _run_c13(prop, tier):
	import engine_b
	return engine_b.run_c13(prop, tier)


PROPS["C13"] = {"run": _run_c13}


# ------------------------------------------------------------------------------------------ C08 (Engine B, lookup path only)
def _run_c08(prop, tier):
	import engine_c08
	return engine_c08.run_c08(prop, tier)


PROPS["C08"] = {"run": _run_c08}

# ------------------------------------------------------------------------------------------ C09 (coverage kernels the filters consult)
# The filter operations themselves (Box<dyn OperationTrait> + async_trait futures) are out of reach: CBMC cannot resolve the
# dynamic dispatch and unwinds the operations recursively together with anyhow's drop glue (no verdict in 15 min at the
# smallest bound; harnesses kept under harness/pipeline as overlay.dev.json). What decides which tiles pass is the coverage
# pyramid the filter consults: set_zoom_min/max, intersect, contains_coord, intersect_pyramid.
PROPS["C09"] = {
	"harnesses": [
		H("c15_h11_pyramid_zoom_limits", CORE, "verif_kani::c15pyr", funcs=["TileBBoxPyramid::set_zoom_min", "TileBBoxPyramid::set_zoom_max"], bounds=ALL_LEVELS + "; min/max any u8 (incl. min > max, > 31)", sample=PYR + "; zmin, zmax"),
		H("c15_h11_pyramid_contains", CORE, "verif_kani::c15pyr", funcs=["TileBBoxPyramid::contains_coord"], bounds=ALL_LEVELS + "; z any u8", sample=PYR + "; coordinate"),
		H("c15_h11_pyramid_intersect", CORE, "verif_kani::c15pyr", funcs=["TileBBoxPyramid::intersect"], bounds=ALL_LEVELS, sample="two " + PYR),
		H("c15_h11_pyramid_intersect_gapped", CORE, "verif_kani::c15pyr", funcs=["TileBBoxPyramid::intersect"], bounds=ALL_LEVELS + "; second operand concrete, populated at levels 2, 5, 31 only", sample=PYR, timeout=900),
	] + [
		H(f"c09_intersect_geo_levels{sfx}", CORE, "verif_kani::c15pyr", funcs=["TileBBoxPyramid::intersect_geo_bbox", "TileBBox::intersect_bbox"], bounds=ALL_LEVELS + "; " + shape + "; TileBBox::from_geo replaced by a fixed non-empty box per level (from_geo itself: geo harnesses)", sample=PYR, stubs=[POW, "TileBBox::from_geo -> fixed box per level"], timeout=900)
		for sfx, shape in [("", "all 32 levels symbolic"), ("_from3", "levels 0..=2 concretely empty"), ("_gap4", "level 4 concretely empty")]
	] + [
		H("c09_intersect_pyramid", CORE, "verif_kani::c15pyr", funcs=["TileBBox::intersect_pyramid"], bounds=ALL_LEVELS, sample=PYR + "; box", stubs=[POW]),
	] + [
		H(f"c15_h12_geo_x_z{z}", CORE, c15g, funcs=["TileBBox::from_geo"], bounds=f"zoom {z}: a valid geographic box always maps to a tile box (no error for the filter to unwrap)", sample="see C15", stubs=[LIBM, POW])
		for z in [3]
	],
	"meta": {
		"assumptions": ["the filter stages consult exactly this coverage pyramid at run time (get_tile_data: contains_coord guard; get_tile_stream: intersect_pyramid) - by reading"],
		"out": ["the filter_zoom / filter_bbox Operation objects themselves (dyn OperationTrait + async futures: no CBMC verdict within reach)", "Operation::build glue and VPL argument parsing", "tilejson narrowing", "chains of filters"],
	},
}

# ------------------------------------------------------------------------------------------ C02 / C03
PROPS["C02"] = {
	"harnesses": [
		H(f"c02_default_stream_{w}", CORE, "verif_kani::c02", funcs=["TilesReaderTrait::get_bbox_tile_stream (default)", "TileStream::from_coord_vec_async", "TileBBox::iter_coords"],
			bounds=f"requested box at most {w} tiles at any level/position (all four empty shapes included); reader content = symbolic box minus a symbolic hole", sample="reader box, hole, requested box q", stubs=[POW], tier=t, timeout=to)
		for w, t, to in [("2x1", "quick", 900), ("1x2", "thorough", 1200), ("2x2", "thorough", 2400)]
	] + [
		H("c06_h3_stream", CONV, c06, funcs=["<TilesConvertReader as TilesReaderTrait>::get_bbox_tile_stream"], bounds="converting reader: see C06 (box at most 2x2, all flag combinations)", sample="see C06", stubs=[POW], tier="thorough", timeout=2400, unwindset=PYR_LOOPS),
	],
	"meta": {
		"assumptions": ["reader = harness TilesReaderTrait implementation using the trait's default stream; hand-rolled block_on (futures::lock::Mutex uncontended)"],
		"out": ["the versatiles reader's own chunked stream (whole-reader runs: no verdict within reach)", "the MBTiles SQL range query", "multi-threaded execution (C14)", "boxes larger than 2x2", "pipeline operations: overlay stream = C08, filters = C09"],
	},
}
PROPS["C03"] = {
	"harnesses": [
	] + [
		H(f"c03_include_coord_fold_{n}", CORE, "verif_kani::c02", funcs=["TileBBoxPyramid::include_coord", "TileBBox::include_coord", "TileBBoxPyramid::contains_coord"], bounds=f"3 stored tiles at zoom levels {n} (concrete per instance), coordinates symbolic (valid for their level)", sample="3 symbolic coordinates", stubs=[POW], timeout=900, tier=t)
		for n, t in [("5_5_5", "quick"), ("0_31_5", "quick"), ("31_31_31", "thorough")]
	] + [
		H("c16_block_index_sparse", CONT, f"{VT}::block_index::kani_harness", funcs=["BlockIndex::get_bbox_pyramid"], bounds="versatiles: coverage = union of block boxes (see C16)", sample="see C16", stubs=[POW, "HashMap model"], timeout=900),
		H("c15_h11_pyramid_include_l7", CORE, "verif_kani::c15pyr", funcs=["TileBBoxPyramid::include_bbox_pyramid"], bounds="pipeline unions (overlay/merge): union contains both operands (see C15)", sample="see C15", stubs=[POW], timeout=900),
		H("c06_h1_coverage", CONV, c06, funcs=["TilesConvertReader::new_from_reader"], bounds="converting reader: advertised coverage = selected pre-image set (see C06)", sample="see C06", stubs=[POW], timeout=900, unwindset=PYR_LOOPS),
	],
	"meta": {
		"assumptions": ["coordinates handed to include_coord are valid for their level (file-name parsing of the tar/directory readers is outside the claim)"],
		"out": ["MBTiles MIN/MAX SQL", "PMTiles directory walk (calc_bbox_pyramid: async reader)", "readers' file-name parsing", "more than 3 tiles per fold (include_coord is a monotone min/max update: the 3-tile fold exhibits every ordering of min/max updates)"],
	},
}

# ------------------------------------------------------------------------------------------ C10 (layer-level kernel)
PROPS["C10"] = {
	"harnesses": [
		H(f"c10_layer_merge_{nk}_{nv}", GEO, c11, funcs=["VectorTileLayer::add_from_layer", "VectorTileLayer::add_vector_tile_features", "PropertyManager::decode_tag_ids", "PropertyManager::encode_tag_ids", "VectorTileLayer::read"],
			bounds=f"two equally named layers, each with {nk} key / {nv} value table entries from 2-element pools (so the same entries occur in different order), 1 feature with 1 tag pair each", sample="two layers written by the harness' own MVT encoder from symbolic ground truths", stubs=[MON, "HashMap model"], tier=t, timeout=to)
		for nk, nv, t, to in [(1, 1, "quick", 900), (2, 2, "thorough", 2400)]
	],
	"meta": {
		"assumptions": ["HashMap model in PropertyManager; BTreeMap-based GeoProperties executed for real"],
		"out": ["the from_vectortiles_merged operation (dyn OperationTrait sources, async streams)", "merge_tiles' grouping by layer name", "more than one feature / tag per layer", "real MVT files"],
	},
}

PROPS["C15"]["harnesses"] += [
	H("c15_h7b_index_large", CORE, c15, funcs=["TileBBox::get_tile_index2", "TileBBox::get_coord2_by_index"], bounds=ALL_LEVELS + "; no size restriction (boxes of up to 2^62 tiles)", sample=BBOX + "; tile p in the box; index j < count", tier="thorough", timeout=2400),
]

# ------------------------------------------------------------------------------------------ C17 / C19: JSON string kernel
JS = "byte_iterator::basics::kani_harness"
PROPS["C17"] = {
	"harnesses": [
		H("c17_escape_one_char", CORE, "json::verif_c17", funcs=["json::stringify::escape_json_string"], bounds="every string of one char (all Unicode scalar values); real formatting (no format! stub)", sample="c: char", timeout=1200),
		H("c17_stringify_string_value", CORE, "json::verif_c17", funcs=["json::stringify::stringify", "json::stringify::escape_json_string"], bounds="JsonValue::String of one char (all scalar values)", sample="c: char", timeout=1200),
		H("c17_json_string_escape", CORE, JS, funcs=["parse_quoted_json_string"], bounds="production '\"' '\\\\' x '\"' for every byte x != 'u'", sample="x: u8"),
		H("c17_json_string_u00xx", CORE, JS, funcs=["parse_quoted_json_string"], bounds="production \\\\u00XX for every control code the serialiser escapes (< 0x20, 0x7f..=0x9f)", sample="v: u8"),
		H("c17_json_string_verbatim_char", CORE, JS, funcs=["parse_quoted_json_string"], bounds="'\"' + UTF-8 of one char that the serialiser writes verbatim (all such scalar values) + '\"'", sample="c: char", timeout=1200),
	],
	"meta": {
		"assumptions": ["ByteIterator state constructed directly at the start of the input (what from_reader establishes), source exhausted; error-message formatting stubbed in the parser harnesses",
			"round trip = (escape == RFC 8259 reference escaper) + (parser inverts each production of the reference escaper): composition over one-character strings; longer strings are concatenations of these productions (parser has no state between characters besides its output buffer)"],
		"out": ["numbers (f64::to_string / dec2flt)", "arrays/objects (BTreeMap, recursion)", "TileJSON <-> container round trips and tiles.json (async I/O, regex)", "strings longer than one character (by the per-production argument above)", "surrogate-pair escapes written by other serialisers (rejected by the parser; stringify never emits them)"],
	},
}
PROPS["C19"]["harnesses"] += [
	H(f"c19_format_error_pos{p}", CORE, "byte_iterator::iterator::kani_harness", funcs=["ByteIterator::format_error"], bounds=f"iterator position {p} (concrete), arbitrary 16-byte debug ring and peeked byte", sample="ring: [u8; 16], peeked: Option<u8>", tier=t, timeout=1200)
	for p, t in [(1, "quick"), (2, "quick"), (3, "thorough"), (16, "thorough"), (17, "thorough"), (33, "thorough")]
] + [
	H("c19_json_string_plain2", CORE, JS, funcs=["parse_quoted_json_string", "ByteIterator::expect_next_byte"], bounds="'\"' b1 b2 '\"' with arbitrary bytes", sample="b1, b2: u8"),
	H("c19_json_string_unicode_any", CORE, JS, funcs=["parse_quoted_json_string"], bounds="'\"\\\\u' + 4 arbitrary bytes + '\"'", sample="h: [u8; 4]", timeout=1200),
	H("c19_json_string_truncated", CORE, JS, funcs=["parse_quoted_json_string"], bounds="'\"' + 0..=3 arbitrary non-quote bytes, unterminated", sample="[u8; n]", timeout=1200),
]

PROPS["C06"]["harnesses"] += [
	H(f"c06_lookup_{n}", CONV, "container::converter::kani_lookup", funcs=["<TilesConvertReader as TilesReaderTrait>::get_tile_data", "<TileCoord3 as TransformCoord>::flip_y", "<TileCoord3 as TransformCoord>::swap_xy"],
		bounds=f"flags and level {n} (concrete per instance), reader struct built directly without recompressor; source box symbolic; requested x, y any u32", sample="source box; coordinate c", stubs=[POW], timeout=900, tier=t)
	for n, t in [("plain_l3", "quick"), ("flip_l3", "quick"), ("swap_l3", "quick"), ("flip_swap_l3", "quick"), ("flip_swap_l31", "thorough")]
]


# C06: the lookup / stream / coverage transform consistency is decided by Engine B (MIR -> SMT): the async converting reader
# itself is out of reach for CBMC (c06_h2_lookup_* / c06_lookup_*: 5-38 GB, no verdict; kept in the harness sources, not registered)
def _c06_extra(prop, tier):
	import engine_b
	return engine_b.run_c06_transform(prop, tier)


PROPS["C06"]["extra"] = _c06_extra


# C09: the filter operations themselves (async + dyn: out of reach for CBMC) are decided on their guard/clip skeleton by Engine B
def _c09_extra(prop, tier):
	import engine_b
	return engine_b.run_c09_ops(prop, tier)


PROPS["C09"]["extra"] = _c09_extra
PROPS["C09"]["meta"]["assumptions"] = ["filter_zoom / filter_bbox Operation::get_tile_data and get_tile_stream: the containment guard (contains_coord) and the clip (intersect_pyramid) on the operation's own coverage pyramid are extracted from the nightly MIR of the async closures; z3/cvc5 decide lookup = coverage and stream = lookups inside the box for every level, coverage box (also empty), requested box and tile; data-dependent early exits before the source is consulted make the result inconclusive; a SAT model is replayed on real pipelines built by the real factory over from_debug",
	"the coverage pyramid the operations consult is built by the pyramid/box kernels decided by the Kani harnesses of this check (set_zoom_min/max, intersect_geo_bbox, intersect_pyramid, contains_coord)"]
PROPS["C09"]["meta"]["out"] = ["Operation::build glue (which arguments reach set_zoom_min/max / intersect_geo_bbox) and VPL argument parsing", "tilejson narrowing", "chains of filters (each operation is decided against an arbitrary source)", "the source's own stream/lookup agreement"]
PROPS["C06"]["harnesses"] = [h for h in PROPS["C06"]["harnesses"] if h.name in ("c06_h1_coverage", "c06_add_border")]
# geographic box -> tile box (anchor of C06: convert --bbox): the geo harnesses of C15 also run under C06 (round-5 seed C06-r5-2)
PROPS["C06"]["harnesses"] += [
	H(f"c15_h12_geo_x_z{z}", CORE, c15g, funcs=["TileBBox::from_geo", "TileCoord2::from_geo"], bounds=f"zoom {z}: every valid west <= east maps to a non-empty tile box that covers it (incl. the antimeridian edges)", sample="see C15", stubs=[LIBM, POW])
	for z in [0, 3]
] + [
	H(f"c15_h13_geo_y_z{z}", CORE, c15g, funcs=["TileBBox::from_geo", "TileCoord2::from_geo"], bounds=f"zoom {z}: every valid south <= north maps to a non-empty tile box", sample="see C15", stubs=[LIBM, POW])
	for z in [3]
]
PROPS["C06"]["meta"]["assumptions"].append("transform consistency: the call sequences of flip_y/swap_xy are extracted from the MIR of new_from_reader, get_tile_data, get_bbox_tile_stream (and its map_coord closure) for each of the 4 flag assignments and compared in z3/cvc5 against each other and the specification; data-dependent early exits before the source is consulted make the result inconclusive")
PROPS["C06"]["meta"]["out"] += ["payloads on the lookup/stream path (the async reader is not executed; C04 decides the recompression pipeline)", "the requested-pyramid filter on the lookup/stream path (neither path consults it on this tree)"]
PROPS["C02"]["harnesses"] = [h for h in PROPS["C02"]["harnesses"] if h.name != "c06_h3_stream"]


# C02: the trait's default stream (c02_default_stream_*: futures machinery, 18 GB / 1500 s without a verdict at a 2x1 box) is out
# of reach for CBMC; what is decided is the coordinate-transformed stream of the converting reader against its lookups (Engine B)
def _c02_extra(prop, tier):
	import engine_b
	return engine_b.run_c06_transform(prop, tier, kinds=("stream_vs_lookup", "lookup", "stream_coord", "stream_box"))


PROPS["C02"]["extra"] = _c02_extra
PROPS["C02"]["meta"] = {
	"assumptions": ["the wrapped source's own stream agrees with its own lookups (that is the property for that source, not decided here)",
		"call sequences of flip_y/swap_xy/intersect extracted from the MIR of TilesConvertReader::get_tile_data, get_bbox_tile_stream and its map_coord closure for each of the 8 (flip, swap, requested pyramid) assignments; data-dependent early exits before the source is consulted make the result inconclusive"],
	"out": ["the trait's default stream (lookup loop over iter_coords through futures::stream: no CBMC verdict within reach; iter_coords itself is decided in C15)",
		"the versatiles reader's chunked stream, the MBTiles SQL range query, pipeline operations (async + dyn: no verdict within reach)", "payload bytes (C04 decides the recompression pipeline)",
		"multi-threaded execution of the stream stages (C14, not applicable)"],
}


# GeoBBox::check gate (round-5 seed C19-r5-1: a rewritten check let NaN through to intersect_geo_bbox(..).unwrap())
_GEO_CHECK = dict(funcs=["GeoBBox::check"], bounds="all four components any f64 bit pattern (NaN, infinities, subnormals): check() is Ok exactly for -180 <= w <= e <= 180, -90 <= s <= n <= 90 - the precondition the from_geo harnesses assume", sample="w, s, e, n: f64 symbolic")
PROPS["C09"]["harnesses"].append(H("c19_geo_check_exact", CORE, c15g, tier="quick", **_GEO_CHECK))
PROPS["C19"]["harnesses"].append(H("c19_geo_check_exact", CORE, c15g, tier="quick", **_GEO_CHECK))


# geometry decoding (round-5 seed C19-r5-2: a reserve() of the announced point count in to_geometry)
PROPS["C19"]["harnesses"] += [
	H(f"c19_feature_geometry_any_{n}_t{t}", GEO, c11, funcs=["VectorTileFeature::to_geometry", "ValueReaderSlice::read_varint", "ValueReaderSlice::read_svarint"],
		bounds=f"every {n}-byte geometry blob, geometry type {t} (1 = points, 2 = lines): an error or a geometry, no panic", sample=f"[u8; {n}]", tier=tr, timeout=to)
	for n, t, tr, to in [(2, 1, "quick", None), (3, 1, "quick", None), (3, 2, "quick", None), (4, 1, "thorough", 2400), (4, 2, "thorough", 2400), (6, 2, "thorough", 2400)]
] + [
	H(f"c19_feature_geometry_longcmd_{e}_t{t}", GEO, c11, funcs=["VectorTileFeature::to_geometry"],
		bounds=f"command integer = one 9-byte varint (announced count up to 2^60), followed by {e} symbolic bytes; geometry type {t}", sample=f"9-byte varint + [u8; {e}]", tier=tr, timeout=to)
	for e, t, tr, to in [(0, 1, "quick", None), (2, 2, "quick", 900)]
]

# =============================================================================================
# Registration: what was measured to finish on the reference tree (DESIGN.md 0.5). Harnesses that never produced a verdict
# stay in the sources but are not run by any tier; TIER_OVERRIDE moves measured-slow ones to the thorough tier.
# =============================================================================================
UNREGISTERED = {
	# async converting reader / pipeline operations (dyn dispatch + boxed futures): 5-38 GB, no verdict
	"c06_h3_stream", "c02_default_stream_2x1", "c02_default_stream_1x2", "c02_default_stream_2x2",
	# Kani 0.68 internal compiler error (intrinsics.rs:243) when compiling the harness
	"c05_h3_tile_request_1", "c05_h3_tile_request_2", "c05_h3_tile_request_5", "c05_h3_tile_request_6",
	# decoders reading through Box<dyn ValueReader> sub-readers / from_utf8 on symbolic bytes: time-outs at the smallest bound
	"c19_pbf_string_3", "c19_pbf_string_11", "c19_pbf_packed_4", "c19_pbf_packed_11", "c19_pbf_sub_reader_11", "c19_sub_reader_any_length",
	"c19_vector_tile_any_2", "c19_vector_tile_any_4", "c19_geo_value_any_3", "c19_geo_value_any_10", "c19_layer_any_3", "c19_layer_any_5",
	"c19_tile_id_to_coord_any",
	"c11_value_uint", "c11_value_int", "c11_value_bool", "c11_value_float", "c11_value_double", "c11_value_string",
	# Kani 0.68 internal compiler error (place.rs:812) for the <1, 1> instances
	"c11_layer_read_1_1", "c11_layer_reencode_1_1", "c10_layer_merge_1_1",
	# float division at zoom >= 24 did not finish in 2400 s
	"c15_h12_geo_x_z24", "c15_h12_geo_x_z31", "c15_h6_count",
	"c15_h7_index_roundtrip",
	# VectorTileFeature::to_geometry (round-5 seed C19-r5-2): Vec<Vec<[f64; 2]>> grown inside loops whose trip count is a decoded
	# varint - heap containers of data-dependent length; even the 2-byte instance was still in symbolic execution after 12 min / 7 GB
	"c19_feature_geometry_any_2_t1", "c19_feature_geometry_any_3_t1", "c19_feature_geometry_any_3_t2", "c19_feature_geometry_any_4_t1",
	"c19_feature_geometry_any_4_t2", "c19_feature_geometry_any_6_t2", "c19_feature_geometry_longcmd_0_t1", "c19_feature_geometry_longcmd_2_t2",
	# structured vector-tile layers through Box<dyn ValueReader> sub-readers: no verdict in 2400 s
	"c11_layer_read_2_2", "c11_layer_reencode_2_2", "c10_layer_merge_2_2",
	# found the from_utf8(..).unwrap() defect of format_error in 14-240 s on the unrepaired tree; with the repair (from_utf8_lossy over a
	# window of >= 3 symbolic bytes) CBMC runs out of memory (24 GB, ~1000 s; position 3 is proven under a 44 GB cap in 2300 s - too
	# close to the tier cap to register): positions 1 and 2 stay registered
	"c19_format_error_pos3", "c19_format_error_pos16", "c19_format_error_pos17", "c19_format_error_pos33",
	# JSON string parser on symbolic bytes (from_utf8 validation of symbolic bytes): no verdict in 1200-2400 s
	"c19_json_string_plain2", "c19_json_string_unicode_any", "c19_json_string_truncated",
	# PMTiles directory serialisation / decoding of two-byte varints or 3 entries: CBMC out of memory (all checks ERROR) at 24 GB
	"c01_entries_serialize_1", "c01_entries_serialize_1w", "c01_entries_serialize_2", "c01_entries_serialize_3", "c16_entries_decode_1w",
	# declared-vs-applied compression through TilesConvertReader::new_from_reader: 420-780 s each and out of memory for 7 of 13 when run
	# in parallel; the recompression pipeline itself is decided by c04_recompress_* (all 9 pairs x force)
	"c04_declared_u_keep", "c04_declared_g_keep", "c04_declared_b_keep", "c04_declared_u_g", "c04_declared_u_b", "c04_declared_g_u", "c04_declared_g_g",
	"c04_declared_g_b", "c04_declared_b_u", "c04_declared_b_g", "c04_declared_b_b", "c04_declared_u_u",
	# sparse block index incl. the 32-level coverage union: out of memory; the acceptance/lookup instances (..._accept_*) finish in ~100 s
	"c16_block_index_sparse_coverage_12_12", "c16_block_index_sparse_coverage_5_12",
	# update-stage kernel filter_map_properties on a 3-feature layer without tags: symbolic execution explores decode_tag_ids' error paths
	# (anyhow context + Backtrace drop glue) for every feature: 1200 s / 7 GB without a verdict
	"c11_filter_map_order_3", "c11_filter_map_order_4",
	# overlong announced lengths: symbolic execution still explores the accepting path through the boxed sub-reader / from_utf8: 900 s without a verdict
	"c19_pbf_packed_overlong", "c19_pbf_string_overlong", "c19_pbf_sub_reader_overlong", "c19_get_sub_reader_any_length",
	# ran out of memory / time at the thorough caps
	"c16_block_index_sparse", "c15_h11_pyramid_include_l0", "c15_h11_pyramid_include_l7", "c15_h11_pyramid_include_l31",
}
# harnesses that are fast on the reference tree but whose running time depends on how the code under test is written
# (a mutant that iterates differently must still get a verdict): generous time-outs
SLOW_OK = {"c15_h11_pyramid_intersect": 1500, "c15_h11_pyramid_zoom_limits": 1500, "c15_h11_pyramid_contains": 1200, "c15_h11_pyramid_zoom_min": 1200, "c15_h11_pyramid_zoom_max": 1200,
	"c15_h11_pyramid_transform": 1200, "c15_h11_pyramid_eq": 1200, "c15_h11_pyramid_ctor": 1200, "c09_intersect_pyramid": 1200}
TIER_OVERRIDE = {
	"c19_entries_v3_any_2": "thorough", "c15_h8_iter_coords_2x2": "thorough", "c15_h11_pyramid_include_l7": "thorough",
	"c15_h9_grid_s2_1x2": "quick", "c15_h9_grid_s256_256x1": "thorough",
}
import os as _os
_DEV_ALL = bool(_os.environ.get("VERIF_DEV_ALL"))  # development knob: run unregistered harnesses too (never set by a registered command)
if _DEV_ALL:
	UNREGISTERED = set()
if "C10" in PROPS and not _DEV_ALL:
	del PROPS["C10"]  # the layer-merge harness did not finish (2400 s); the operation itself is async + dyn (DESIGN.md 0.2)
if "C17" in PROPS and not _DEV_ALL:
	del PROPS["C17"]  # no harness of the JSON string kernel finished (DESIGN.md 0.2 item 5, section 8 fallback rule)
for _pid, _spec in PROPS.items():
	if "harnesses" in _spec:
		_spec["harnesses"] = [h for h in _spec["harnesses"] if h.name not in UNREGISTERED]
		for h in _spec["harnesses"]:
			if h.name in TIER_OVERRIDE:
				h.tier = TIER_OVERRIDE[h.name]
			if h.name in SLOW_OK:
				h.timeout = max(h.timeout or 0, SLOW_OK[h.name])
