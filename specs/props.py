"""Harness registry: property id -> harness instances and evidence metadata."""
from vlib import H

CORE = "versatiles_core"
ALL_LEVELS = "zoom level 0..=31 symbolic, coordinates full-width u32"
BBOX = "TileBBox from the closure of new/new_full/new_empty/set_empty/intersect_bbox (both empty encodings)"

PROPS = {}

# ------------------------------------------------------------------------------------------ C15
c15 = "verif_kani::c15"
PROPS["C15"] = {
	"harnesses": [
		H("c15_gen_closure", CORE, c15, funcs=["TileBBox::new", "TileBBox::new_full", "TileBBox::new_empty", "TileBBox::set_empty", "TileBBox::intersect_bbox"],
			bounds=ALL_LEVELS, sample="level, 4 x u32 constructor arguments, two generator boxes", stubs=["u32::pow(2,z) -> 1<<z"]),
		H("c15_h1_empty_contains", CORE, c15, funcs=["TileBBox::is_empty", "TileBBox::contains2", "TileBBox::contains3"], bounds=ALL_LEVELS, sample=BBOX + "; symbolic tile p, symbolic z"),
		H("c15_h2_intersect", CORE, c15, funcs=["TileBBox::intersect_bbox"], bounds=ALL_LEVELS, sample="two " + BBOX + "; symbolic tile p"),
		H("c15_h3_include_bbox", CORE, c15, funcs=["TileBBox::include_bbox"], bounds=ALL_LEVELS, sample="two " + BBOX + "; symbolic tile p"),
		H("c15_h4_overlaps", CORE, c15, funcs=["TileBBox::overlaps_bbox"], bounds=ALL_LEVELS, sample="two " + BBOX + "; symbolic tile p"),
		H("c15_h5_include_coord", CORE, c15, funcs=["TileBBox::include_coord", "TileBBox::include_coord3"], bounds=ALL_LEVELS + "; included coordinate <= max of the level", sample=BBOX + "; tile q to include, tile p, level z"),
		H("c15_h10_transform_box", CORE, c15, funcs=["<TileBBox as TransformCoord>::flip_y", "<TileBBox as TransformCoord>::swap_xy", "<TileCoord3 as TransformCoord>::flip_y", "<TileCoord3 as TransformCoord>::swap_xy"],
			bounds=ALL_LEVELS, sample=BBOX + "; tile p of that level", stubs=["u32::pow(2,z) -> 1<<z"]),
	],
	"meta": {
		"assumptions": ["u32::pow(2, z) replaced by 1 << z with the same overflow panic (harnesses that reach TileBBox::new*/flip_y)"],
		"out": ["y direction of the tile->geo->tile round trip (needs the true atan/exp/ln/tan pair)", "get_geo_center", "Debug output"],
	},
}

# ------------------------------------------------------------------------------------------ C20
c20 = "types::limited_cache::kani_harness"
LC = ["LimitedCache::add", "LimitedCache::get", "LimitedCache::get_or_set", "LimitedCache::cleanup"]


def _c20(kind, ln, cap, tier="quick", timeout=None):
	what = {"add": "one add(k,v)", "get": "one get(k)", "gos": "one get_or_set(k, loader Ok/Err symbolic)", "survive": "get(k) hit, then add(k') with k' != k"}[kind]
	return H(f"c20_{kind}_{ln}_{cap}", CORE, c20, tier=tier, funcs=LC, timeout=timeout,
		bounds=f"inductive step from an ARBITRARY cache state with exactly {ln} entries and capacity {cap} satisfying the representation invariant; keys u8, values (key, u16 nonce), stamps u64: all symbolic",
		sample=f"{what} on LimitedCache{{cache: {ln} symbolic entries, max_length: {cap}, last_index: symbolic}}", stubs=["HashMap -> association-list model (vmap.rs)"])


PROPS["C20"] = {
	"harnesses": [
		H("c20_base", CORE, c20, funcs=["LimitedCache::with_maximum_size"], bounds="byte budget: any usize >= element size", sample="maximum_size symbolic", stubs=["HashMap -> association-list model (vmap.rs)"]),
		H("c20_base_too_small", CORE, c20, funcs=["LimitedCache::with_maximum_size"], bounds="byte budget < element size: must panic (kani::should_panic)", sample="maximum_size symbolic", expect_cover=False, should_panic=True),
		_c20("add", 0, 1), _c20("add", 1, 1), _c20("add", 1, 2), _c20("add", 2, 2), _c20("add", 2, 3), _c20("add", 3, 3),
		_c20("get", 1, 1), _c20("get", 2, 3), _c20("get", 3, 3),
		_c20("gos", 0, 1), _c20("gos", 1, 1), _c20("gos", 2, 2), _c20("gos", 2, 3), _c20("gos", 3, 3),
		_c20("survive", 2, 2), _c20("survive", 2, 3), _c20("survive", 3, 3),
		_c20("add", 3, 4, "thorough"), _c20("add", 4, 4, "thorough"), _c20("get", 4, 4, "thorough"), _c20("gos", 4, 4, "thorough"), _c20("survive", 4, 4, "thorough"),
	],
	"meta": {
		"assumptions": ["std::collections::HashMap replaced by an association-list model with the same API (hashing and Hash impls are outside the claim)",
			"representation invariant I: len <= max_length, keys distinct, every value carries its key, stamps <= last_index, non-zero stamps pairwise distinct; "
			"shown inductive by the step harnesses and established by with_maximum_size (c20_base), hence holds after histories of any length"],
		"out": ["capacities above 4 (the code has no capacity-dependent branch besides len >= max_length and len/2)", "hashing", "byte budget -> capacity for other K,V", "last_index within 8 of u64::MAX"],
	},
}
