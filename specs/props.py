"""Harness registry: property id -> harness instances and evidence metadata."""
from vlib import H

CORE = "versatiles_core"
ALL_LEVELS = "zoom level 0..=31 symbolic, coordinates full-width u32"
BBOX = "TileBBox from the closure of new/new_full/new_empty/set_empty/intersect_bbox (both empty encodings)"

PROPS = {}

# ------------------------------------------------------------------------------------------ C15
c15 = "verif_kani::c15"
PROPS["C15"] = {
	"harnesses": [
		H("c15_gen_closure", CORE, c15, funcs=["TileBBox::new", "TileBBox::new_full", "TileBBox::new_empty", "TileBBox::set_empty", "TileBBox::intersect_bbox"],
			bounds=ALL_LEVELS, sample="level, 4 x u32 constructor arguments, two generator boxes", stubs=["u32::pow(2,z) -> 1<<z"]),
		H("c15_h1_empty_contains", CORE, c15, funcs=["TileBBox::is_empty", "TileBBox::contains2", "TileBBox::contains3"], bounds=ALL_LEVELS, sample=BBOX + "; symbolic tile p, symbolic z"),
		H("c15_h2_intersect", CORE, c15, funcs=["TileBBox::intersect_bbox"], bounds=ALL_LEVELS, sample="two " + BBOX + "; symbolic tile p"),
		H("c15_h3_include_bbox", CORE, c15, funcs=["TileBBox::include_bbox"], bounds=ALL_LEVELS, sample="two " + BBOX + "; symbolic tile p"),
		H("c15_h4_overlaps", CORE, c15, funcs=["TileBBox::overlaps_bbox"], bounds=ALL_LEVELS, sample="two " + BBOX + "; symbolic tile p"),
		H("c15_h5_include_coord", CORE, c15, funcs=["TileBBox::include_coord", "TileBBox::include_coord3"], bounds=ALL_LEVELS + "; included coordinate <= max of the level", sample=BBOX + "; tile q to include, tile p, level z"),
		H("c15_h10_transform_box", CORE, c15, funcs=["<TileBBox as TransformCoord>::flip_y", "<TileBBox as TransformCoord>::swap_xy", "<TileCoord3 as TransformCoord>::flip_y", "<TileCoord3 as TransformCoord>::swap_xy"],
			bounds=ALL_LEVELS, sample=BBOX + "; tile p of that level", stubs=["u32::pow(2,z) -> 1<<z"]),
	],
	"meta": {
		"assumptions": ["u32::pow(2, z) replaced by 1 << z with the same overflow panic (harnesses that reach TileBBox::new*/flip_y)"],
		"out": ["y direction of the tile->geo->tile round trip (needs the true atan/exp/ln/tan pair)", "get_geo_center", "Debug output"],
	},
}
