// ---- in-file Kani harnesses (overlay): JSON string parser, one grammar production per instance (C19 / C17) ----
#[cfg(kani)]
mod kani_harness {
	use super::*;
	use crate::verif_kani::util::ok;

	fn parse(bytes: &[u8]) -> Option<String> {
		let mut it = ByteIterator::kani_from_bytes(bytes, false);
		let r = ok(parse_quoted_json_string(&mut it));
		std::mem::forget(it);
		r
	}

	// plain content: `"` b1 b2 `"` with arbitrary bytes
	#[kani::proof]
	#[kani::unwind(8)]
	#[kani::stub(std::fmt::format, crate::verif_kani::stubs::fmt_format)]
	#[kani::stub(std::backtrace::Backtrace::capture, crate::verif_kani::stubs::backtrace_capture)]
	fn c19_json_string_plain2() {
		let (a, b): (u8, u8) = (kani::any(), kani::any());
		let r = parse(&[b'"', a, b, b'"']);
		if a < 0x80 && b < 0x80 && a != b'"' && a != b'\\' && b != b'"' && b != b'\\' {
			assert!(r.is_some(), "a plain ASCII string is rejected");
			let s = r.unwrap();
			assert!(s.as_bytes().len() == 2 && s.as_bytes()[0] == a && s.as_bytes()[1] == b, "plain characters are not taken verbatim");
			std::mem::forget(s);
		} else {
			std::mem::forget(r);
		}
		kani::cover!(a >= 0x80);
		kani::cover!(a == b'\\');
	}

	// escape production: `"` `\` x `"`
	#[kani::proof]
	#[kani::unwind(8)]
	#[kani::stub(std::fmt::format, crate::verif_kani::stubs::fmt_format)]
	#[kani::stub(std::backtrace::Backtrace::capture, crate::verif_kani::stubs::backtrace_capture)]
	fn c17_json_string_escape() {
		let x: u8 = kani::any();
		kani::assume(x != b'u');
		let r = parse(&[b'"', b'\\', x, b'"']);
		let want: Option<u8> = match x {
			b'"' => Some(b'"'),
			b'\\' => Some(b'\\'),
			b'/' => Some(b'/'),
			b'b' => Some(8),
			b'f' => Some(12),
			b'n' => Some(10),
			b'r' => Some(13),
			b't' => Some(9),
			_ => None,
		};
		if let Some(w) = want {
			assert!(r.is_some(), "a legal escape is rejected");
			let s = r.unwrap();
			assert!(s.as_bytes().len() == 1 && s.as_bytes()[0] == w, "escape decodes to the wrong character");
			std::mem::forget(s);
		} else {
			std::mem::forget(r);
		}
		kani::cover!(x == b'n');
		kani::cover!(x >= 0x80);
	}

	// unicode production: `"` `\` `u` h1 h2 h3 h4 `"` with four ARBITRARY bytes
	#[kani::proof]
	#[kani::unwind(12)]
	#[kani::stub(std::fmt::format, crate::verif_kani::stubs::fmt_format)]
	#[kani::stub(std::backtrace::Backtrace::capture, crate::verif_kani::stubs::backtrace_capture)]
	fn c19_json_string_unicode_any() {
		let h: [u8; 4] = kani::any();
		let r = parse(&[b'"', b'\\', b'u', h[0], h[1], h[2], h[3], b'"']);
		let good = r.is_some();
		std::mem::forget(r);
		kani::cover!(good);
		kani::cover!(!good && h[3] >= 0x80, "non-ASCII byte inside the quad is rejected");
	}

	// what the serialiser emits for control characters: `\u00XX` (lower-case hex) decodes to U+00XX
	#[kani::proof]
	#[kani::unwind(8)]
	#[kani::stub(std::fmt::format, crate::verif_kani::stubs::fmt_format)]
	#[kani::stub(std::backtrace::Backtrace::capture, crate::verif_kani::stubs::backtrace_capture)]
	fn c17_json_string_u00xx() {
		let v: u8 = kani::any();
		kani::assume(v < 0x20 || (v >= 0x7f && v <= 0x9f));
		const HEX: &[u8; 16] = b"0123456789abcdef";
		let r = parse(&[b'"', b'\\', b'u', b'0', b'0', HEX[(v >> 4) as usize], HEX[(v & 15) as usize], b'"']);
		assert!(r.is_some(), "an escape the serialiser emits is rejected");
		let s = r.unwrap();
		let mut cs = s.chars();
		assert!(cs.next() == Some(v as char) && cs.next().is_none(), "\\u00XX decodes to another character");
		std::mem::forget(s);
		kani::cover!(v == 0x9f);
		kani::cover!(v == 0);
	}

	// a character the serialiser writes verbatim (any scalar value that is not a control, quote or backslash) is read back
	#[kani::proof]
	#[kani::unwind(8)]
	#[kani::stub(std::fmt::format, crate::verif_kani::stubs::fmt_format)]
	#[kani::stub(std::backtrace::Backtrace::capture, crate::verif_kani::stubs::backtrace_capture)]
	fn c17_json_string_verbatim_char() {
		let c: char = kani::any();
		kani::assume(!c.is_control() && c != '"' && c != '\\');
		let mut buf = [0u8; 4];
		let enc = c.encode_utf8(&mut buf).as_bytes().len();
		let mut v: Vec<u8> = Vec::with_capacity(6);
		v.push(b'"');
		let mut i = 0;
		while i < enc {
			v.push(buf[i]);
			i += 1;
		}
		v.push(b'"');
		let r = parse(&v);
		assert!(r.is_some(), "a verbatim character is rejected");
		let s = r.unwrap();
		let mut cs = s.chars();
		assert!(cs.next() == Some(c) && cs.next().is_none(), "a verbatim character is read back as something else");
		std::mem::forget(s);
		kani::cover!(enc == 4);
		kani::cover!(enc == 1);
	}

	// unterminated / truncated input is an error, not a panic
	#[kani::proof]
	#[kani::unwind(8)]
	#[kani::stub(std::fmt::format, crate::verif_kani::stubs::fmt_format)]
	#[kani::stub(std::backtrace::Backtrace::capture, crate::verif_kani::stubs::backtrace_capture)]
	fn c19_json_string_truncated() {
		let b: [u8; 3] = kani::any();
		let n: usize = kani::any();
		kani::assume(n <= 3);
		let mut v: Vec<u8> = Vec::with_capacity(4);
		v.push(b'"');
		let mut i = 0;
		while i < n {
			kani::assume(b[i] != b'"');
			v.push(b[i]);
			i += 1;
		}
		let r = parse(&v);
		assert!(r.is_none(), "an unterminated string is accepted");
		kani::cover!(n == 3 && b[2] == b'\\');
		kani::cover!(n == 0);
	}
}
