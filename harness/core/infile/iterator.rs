// ---- in-file Kani harnesses (overlay): ByteIterator (C19 / C17) ----
#[cfg(kani)]
impl<'a> ByteIterator<'a> {
	/// Builds the iterator state directly at the start of `bytes` (what `from_reader` establishes after its first
	/// `fill_buffer` + `advance`), without going through a `dyn Read` source; the source is exhausted.
	pub fn kani_from_bytes(bytes: &[u8], debug: bool) -> ByteIterator<'static> {
		let mut buffer = [0u8; BUFFER_SIZE];
		let mut i = 0;
		while i < bytes.len() {
			buffer[i] = bytes[i];
			i += 1;
		}
		let mut it = ByteIterator {
			buffer,
			buffer_len: bytes.len(),
			buffer_pos: 0,
			source: Box::new(std::io::empty()),
			peeked_byte: None,
			position: 0,
			is_debug_enabled: debug,
			debug_buffer: [0; DEBUG_RING_BUFFER_SIZE],
		};
		it.advance();
		it
	}
}

#[cfg(kani)]
mod kani_harness {
	use super::*;

	// C19: format_error from an ARBITRARY iterator state (ring content, peeked byte), position concrete per instance
	fn format_error_any<const POS: usize>() {
		let ring: [u8; DEBUG_RING_BUFFER_SIZE] = kani::any();
		let it = ByteIterator {
			buffer: [0u8; BUFFER_SIZE],
			buffer_len: 0,
			buffer_pos: 0,
			source: Box::new(std::io::empty()),
			peeked_byte: kani::any(),
			position: POS,
			is_debug_enabled: true,
			debug_buffer: ring,
		};
		let e = it.format_error("x");
		std::mem::forget(e);
		kani::cover!(ring[0] >= 0x80, "non-ASCII byte in the ring");
		std::mem::forget(it);
	}
	macro_rules! inst {
		($name:ident, $pos:expr, $unw:expr) => {
			#[kani::proof]
			#[kani::unwind($unw)]
			#[kani::stub(std::fmt::format, crate::verif_kani::stubs::fmt_format)]
			#[kani::stub(std::backtrace::Backtrace::capture, crate::verif_kani::stubs::backtrace_capture)]
			fn $name() {
				format_error_any::<$pos>();
			}
		};
	}
	inst!(c19_format_error_pos1, 1, 20);
	inst!(c19_format_error_pos2, 2, 20);
	inst!(c19_format_error_pos3, 3, 20);
	inst!(c19_format_error_pos16, 16, 36);
	inst!(c19_format_error_pos17, 17, 36);
	inst!(c19_format_error_pos33, 33, 36);
}
