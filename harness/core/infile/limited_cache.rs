// ---- C20 in-file harnesses (overlay; private fields of LimitedCache are constructed directly) ----
#[cfg(kani)]
use crate::verif_kani::vmap::HashMap;

#[cfg(kani)]
mod kani_harness {
	use super::*;
	use crate::verif_kani::util::ok;

	type K = u8;
	type V = (u8, u16); // (key tag, nonce): a stored value always carries the key it was stored under
	type C = LimitedCache<K, V>;

	/// Representation invariant of every reachable cache state.
	fn inv(c: &C) -> bool {
		let n = c.cache.items.len();
		if c.max_length < 1 || n > c.max_length {
			return false;
		}
		let mut i = 0;
		while i < n {
			let (k, (v, s)) = &c.cache.items[i];
			if v.0 != *k || *s > c.last_index {
				return false;
			}
			let mut j = i + 1;
			while j < n {
				let (k2, (_, s2)) = &c.cache.items[j];
				if k2 == k {
					return false;
				}
				if *s != 0 && s == s2 {
					return false;
				}
				j += 1;
			}
			i += 1;
		}
		true
	}

	/// An arbitrary cache state with exactly LEN entries and capacity CAP that satisfies the invariant.
	fn any_cache<const LEN: usize, const CAP: usize>() -> C {
		let mut items: Vec<(K, (V, u64))> = Vec::with_capacity(CAP + 1);
		let mut i = 0;
		while i < LEN {
			let k: u8 = kani::any();
			let nonce: u16 = kani::any();
			let stamp: u64 = kani::any();
			items.push((k, ((k, nonce), stamp)));
			i += 1;
		}
		let last_index: u64 = kani::any();
		kani::assume(last_index < u64::MAX - 8);
		let c = LimitedCache { cache: HashMap { items }, max_length: CAP, last_index };
		kani::assume(inv(&c));
		c
	}

	fn lookup(c: &C, k: u8) -> Option<V> {
		let mut i = 0;
		while i < c.cache.items.len() {
			if c.cache.items[i].0 == k {
				return Some(c.cache.items[i].1 .0);
			}
			i += 1;
		}
		None
	}

	// ---- add: capacity, invariant, returned value, the new key is present afterwards
	fn step_add<const LEN: usize, const CAP: usize>() {
		let mut c = any_cache::<LEN, CAP>();
		let k: u8 = kani::any();
		let v: V = (k, kani::any());
		let before = lookup(&c, k);
		let len_before = c.cache.len();
		let r = c.add(k, v);
		assert!(c.cache.len() <= c.max_length, "cache exceeds its capacity after add");
		assert!(inv(&c), "representation invariant broken by add");
		// the value returned and now stored under k was stored under exactly k
		assert!(r.0 == k);
		let after = lookup(&c, k);
		assert!(after == Some(r), "add: key not present afterwards / returned value differs from stored one");
		// or_insert semantics: an existing entry that survived keeps its value
		if len_before < CAP {
			if let Some(old) = before {
				assert!(r == old);
			} else {
				assert!(r == v);
				assert!(c.cache.len() == len_before + 1);
			}
		}
		kani::cover!(LEN < CAP || (len_before == CAP && c.cache.len() <= CAP), "reachable (through an eviction when the cache is full)");
		std::mem::forget(c);
	}

	// ---- get: transparent (None or the value stored under exactly that key), membership unchanged
	fn step_get<const LEN: usize, const CAP: usize>() {
		let mut c = any_cache::<LEN, CAP>();
		let k: u8 = kani::any();
		let before = lookup(&c, k);
		let len_before = c.cache.len();
		let probe: u8 = kani::any();
		let other_before = lookup(&c, probe);
		let r = c.get(&k);
		assert!(r == before, "get returns something other than the value stored under that key");
		if let Some(v) = r {
			assert!(v.0 == k);
		}
		assert!(c.cache.len() == len_before);
		assert!(lookup(&c, probe) == other_before, "get changed the cache content");
		assert!(inv(&c), "representation invariant broken by get");
		kani::cover!(LEN == 0 || r.is_some(), "hit");
		kani::cover!(r.is_none(), "miss");
		std::mem::forget(c);
	}

	// ---- get_or_set: loader value on a miss, stored value on a hit, loader error propagated
	fn step_get_or_set<const LEN: usize, const CAP: usize>() {
		let mut c = any_cache::<LEN, CAP>();
		let k: u8 = kani::any();
		let before = lookup(&c, k);
		let len_before = c.cache.len();
		let loader_ok: bool = kani::any();
		let loaded: V = (k, kani::any());
		let mut called = false;
		let r = ok(c.get_or_set(&k, || {
			called = true;
			if loader_ok {
				Ok(loaded)
			} else {
				Err(anyhow::Error::msg("loader failed"))
			}
		}));
		assert!(c.cache.len() <= c.max_length, "cache exceeds its capacity after get_or_set");
		assert!(inv(&c), "representation invariant broken by get_or_set");
		match before {
			Some(old) => {
				assert!(!called, "loader called although the key was cached");
				assert!(r == Some(old), "hit must return the stored value");
			}
			None => {
				assert!(called);
				if loader_ok {
					assert!(r == Some(loaded), "miss must return what the loader yields");
					assert!(lookup(&c, k) == Some(loaded), "loaded value must be cached");
				} else {
					assert!(r.is_none(), "loader error must be propagated");
					assert!(lookup(&c, k).is_none());
					assert!(c.cache.len() == len_before, "failed load changed membership");
				}
			}
		}
		kani::cover!(before.is_none() && loader_ok, "miss + load");
		kani::cover!(before.is_none() && !loader_ok, "miss + failing loader");
		kani::cover!(LEN == 0 || before.is_some(), "hit");
		std::mem::forget(c);
	}

	// ---- an entry that was just used survives the next eviction (capacity >= 2)
	fn step_survive<const LEN: usize, const CAP: usize>() {
		let mut c = any_cache::<LEN, CAP>();
		let k: u8 = kani::any();
		let hit = c.get(&k);
		kani::assume(hit.is_some());
		let k2: u8 = kani::any();
		kani::assume(k2 != k);
		let len_before = c.cache.len();
		c.add(k2, (k2, kani::any()));
		assert!(lookup(&c, k) == hit, "entry that was just used did not survive the next eviction");
		kani::cover!(LEN < CAP || len_before == CAP, "reachable (through an eviction when the cache is full)");
		std::mem::forget(c);
	}

	// ---- base case: with_maximum_size builds a state that satisfies the invariant; panics iff too small
	#[kani::proof]
	#[kani::unwind(3)]
	#[kani::stub(std::fmt::format, crate::verif_kani::stubs::fmt_format)]
	fn c20_base() {
		let n: usize = kani::any();
		let per = std::mem::size_of::<K>() + std::mem::size_of::<V>();
		kani::assume(n >= per);
		let c: C = LimitedCache::with_maximum_size(n);
		assert!(inv(&c));
		assert!(c.max_length == n / per && c.cache.len() == 0 && c.last_index == 0);
		kani::cover!(c.max_length == 1);
		kani::cover!(c.max_length > 64);
		std::mem::forget(c);
	}

	#[kani::proof]
	#[kani::unwind(3)]
	#[kani::should_panic]
	#[kani::stub(std::fmt::format, crate::verif_kani::stubs::fmt_format)]
	fn c20_base_too_small() {
		let n: usize = kani::any();
		let per = std::mem::size_of::<K>() + std::mem::size_of::<V>();
		kani::assume(n < per);
		let c: C = LimitedCache::with_maximum_size(n);
		std::mem::forget(c);
	}

	macro_rules! inst {
		($name:ident, $f:ident, $len:expr, $cap:expr, $unw:expr) => {
			#[kani::proof]
			#[kani::unwind($unw)]
			#[kani::stub(std::fmt::format, crate::verif_kani::stubs::fmt_format)]
			#[kani::stub(std::backtrace::Backtrace::capture, crate::verif_kani::stubs::backtrace_capture)]
			fn $name() {
				$f::<$len, $cap>();
			}
		};
	}
	// (len, cap) with len <= cap <= 3 (quick), cap == 4 (thorough)
	inst!(c20_add_0_1, step_add, 0, 1, 6);
	inst!(c20_add_1_1, step_add, 1, 1, 6);
	inst!(c20_add_1_2, step_add, 1, 2, 6);
	inst!(c20_add_2_2, step_add, 2, 2, 6);
	inst!(c20_add_2_3, step_add, 2, 3, 6);
	inst!(c20_add_3_3, step_add, 3, 3, 6);
	inst!(c20_add_3_4, step_add, 3, 4, 7);
	inst!(c20_add_4_4, step_add, 4, 4, 7);
	inst!(c20_get_1_1, step_get, 1, 1, 6);
	inst!(c20_get_2_3, step_get, 2, 3, 6);
	inst!(c20_get_3_3, step_get, 3, 3, 6);
	inst!(c20_get_4_4, step_get, 4, 4, 7);
	inst!(c20_gos_0_1, step_get_or_set, 0, 1, 6);
	inst!(c20_gos_1_1, step_get_or_set, 1, 1, 6);
	inst!(c20_gos_2_2, step_get_or_set, 2, 2, 6);
	inst!(c20_gos_2_3, step_get_or_set, 2, 3, 6);
	inst!(c20_gos_3_3, step_get_or_set, 3, 3, 6);
	inst!(c20_gos_4_4, step_get_or_set, 4, 4, 7);
	inst!(c20_survive_2_2, step_survive, 2, 2, 6);
	inst!(c20_survive_2_3, step_survive, 2, 3, 6);
	inst!(c20_survive_3_3, step_survive, 3, 3, 6);
	inst!(c20_survive_4_4, step_survive, 4, 4, 7);
	inst!(c20_add_5_5, step_add, 5, 5, 8);
	inst!(c20_get_5_5, step_get, 5, 5, 8);
	inst!(c20_gos_5_5, step_get_or_set, 5, 5, 8);
	inst!(c20_survive_5_5, step_survive, 5, 5, 8);
	inst!(c20_add_6_6, step_add, 6, 6, 9);
	inst!(c20_survive_6_6, step_survive, 6, 6, 9);
	inst!(c20_get_6_6, step_get, 6, 6, 9);
	inst!(c20_gos_6_6, step_get_or_set, 6, 6, 9);
	inst!(c20_add_7_8, step_add, 7, 8, 11);
	inst!(c20_add_8_8, step_add, 8, 8, 11);
	inst!(c20_get_8_8, step_get, 8, 8, 11);
	inst!(c20_gos_8_8, step_get_or_set, 8, 8, 11);
	inst!(c20_survive_8_8, step_survive, 8, 8, 11);
}
