// C02 / C03 kernels in versatiles_core:
//  - the default bounding-box stream of a reader (lookup loop) delivers exactly the lookups inside the box
//  - folding include_coord over stored tiles yields exactly their bounding box (how tar / directory / PMTiles readers derive coverage)
use super::stubs::block_on;
use super::util::*;
use crate::tilejson::TileJSON;
use crate::types::*;
use async_trait::async_trait;

/// reader with a symbolic presence predicate: a tile exists iff its coordinate lies in `have` (a symbolic box)
/// and is not the symbolic hole `hole`; payload = the coordinate
#[derive(Debug)]
struct HoleReader {
	have: TileBBox,
	hole: TileCoord3,
}

impl HoleReader {
	fn has(&self, c: &TileCoord3) -> bool {
		c.z == self.have.level && inb(&self.have, &TileCoord2::new(c.x, c.y)) && !(*c == self.hole)
	}
}

#[async_trait]
impl TilesReaderTrait for HoleReader {
	fn get_source_name(&self) -> &str {
		"hole"
	}
	fn get_container_name(&self) -> &str {
		"hole"
	}
	fn get_parameters(&self) -> &TilesReaderParameters {
		unreachable!("the default stream never asks for the parameters")
	}
	fn override_compression(&mut self, _c: TileCompression) {}
	fn get_tilejson(&self) -> &TileJSON {
		unreachable!("the default stream never asks for the metadata")
	}
	async fn get_tile_data(&self, coord: &TileCoord3) -> anyhow::Result<Option<Blob>> {
		if self.has(coord) {
			let mut v = Vec::with_capacity(9);
			v.extend_from_slice(&coord.x.to_be_bytes());
			v.extend_from_slice(&coord.y.to_be_bytes());
			v.push(coord.z);
			Ok(Some(Blob::from(v)))
		} else {
			Ok(None)
		}
	}
}

fn payload_is(b: &Blob, c: &TileCoord3) -> bool {
	let s = b.as_slice();
	let (x, y) = (c.x.to_be_bytes(), c.y.to_be_bytes());
	s.len() == 9 && s[0] == x[0] && s[1] == x[1] && s[2] == x[2] && s[3] == x[3] && s[4] == y[0] && s[5] == y[1] && s[6] == y[2] && s[7] == y[3] && s[8] == c.z
}

fn default_stream<const WX: u32, const WY: u32>() {
	let level: u8 = kani::any();
	kani::assume(level <= 31);
	let have = any_bbox_at(level);
	let hole = TileCoord3 { x: kani::any(), y: kani::any(), z: level };
	let reader = HoleReader { have, hole };
	let q = any_bbox_at(level);
	kani::assume(q.width() <= WX && q.height() <= WY);
	let items = block_on(block_on(reader.get_bbox_tile_stream(q.clone())).collect());
	// one pass over the stream: every item lies in the box, is what the lookup returns, and is seen once
	let mut seen = [false; 4];
	assert!(items.len() <= (WX * WY) as usize, "stream delivers more tiles than the box has");
	let mut i = 0;
	while i < items.len() {
		let (c, blob) = &items[i];
		assert!(c.z == level && inb(&q, &TileCoord2::new(c.x, c.y)), "stream delivers a tile outside the requested box");
		assert!(reader.has(c), "stream delivers a tile the lookup does not return");
		assert!(payload_is(blob, c), "stream delivers other bytes than the lookup");
		let idx = ((c.y - q.y_min) * WX + (c.x - q.x_min)) as usize;
		assert!(!seen[idx], "stream delivers a tile twice");
		seen[idx] = true;
		i += 1;
	}
	// and nothing is missing
	let mut dy = 0;
	while dy < WY {
		let mut dx = 0;
		while dx < WX {
			let inside = !q.is_empty() && dx < q.width() && dy < q.height();
			if inside {
				let c = TileCoord3 { x: q.x_min + dx, y: q.y_min + dy, z: level };
				assert!(seen[(dy * WX + dx) as usize] == reader.has(&c), "stream misses a tile the lookup returns");
			} else {
				assert!(!seen[(dy * WX + dx) as usize]);
			}
			dx += 1;
		}
		dy += 1;
	}
	kani::cover!(items.len() as u32 == WX * WY);
	kani::cover!(items.len() as u32 + 1 == WX * WY && !q.is_empty(), "the hole is inside the box");
	kani::cover!(q.is_empty() && q.x_min <= q.x_max);
	std::mem::forget(items);
	std::mem::forget(reader);
}

macro_rules! inst {
	($name:ident, $wx:expr, $wy:expr, $unw:expr) => {
		#[kani::proof]
		#[kani::unwind($unw)]
		#[kani::stub(std::fmt::format, crate::verif_kani::stubs::fmt_format)]
		#[kani::stub(std::backtrace::Backtrace::capture, crate::verif_kani::stubs::backtrace_capture)]
		#[kani::stub(u32::pow, crate::verif_kani::stubs::u32_pow)]
		fn $name() {
			default_stream::<$wx, $wy>();
		}
	};
}
inst!(c02_default_stream_2x1, 2, 1, 6);
inst!(c02_default_stream_1x2, 1, 2, 6);
inst!(c02_default_stream_2x2, 2, 2, 8);

// C03-H1: coverage folded from stored coordinates = their bounding box, per level.
// The zoom levels of the three tiles are concrete per instance (a symbolic level writes the pyramid at a symbolic index and
// did not finish in 900 s); the coordinates are symbolic.
fn include_fold<const Z0: u8, const Z1: u8, const Z2: u8>() {
	let zs = [Z0, Z1, Z2];
	let mut pyr = TileBBoxPyramid::new_empty();
	let mut cs = [TileCoord3 { x: 0, y: 0, z: 0 }; 3];
	let mut i = 0;
	while i < 3 {
		let z = zs[i];
		let max = ((1u64 << z) - 1) as u32;
		let (x, y): (u32, u32) = (kani::any(), kani::any());
		kani::assume(x <= max && y <= max);
		cs[i] = TileCoord3 { x, y, z };
		pyr.include_coord(&cs[i]);
		i += 1;
	}
	// every stored tile is covered
	i = 0;
	while i < 3 {
		assert!(pyr.contains_coord(&cs[i]), "advertised coverage misses a stored tile");
		i += 1;
	}
	// each level box is exactly the bounding box of the tiles stored at that level
	let mut li = 0;
	while li < 3 {
		let l = zs[li];
		let lb = pyr.get_level_bbox(l);
		let (mut x0, mut y0, mut x1, mut y1) = (u32::MAX, u32::MAX, 0u32, 0u32);
		i = 0;
		while i < 3 {
			if cs[i].z == l {
				x0 = x0.min(cs[i].x);
				y0 = y0.min(cs[i].y);
				x1 = x1.max(cs[i].x);
				y1 = y1.max(cs[i].y);
			}
			i += 1;
		}
		assert!(!lb.is_empty() && lb.x_min == x0 && lb.y_min == y0 && lb.x_max == x1 && lb.y_max == y1, "level box is not the bounding box of the stored tiles");
		assert!(valid_bbox(lb));
		li += 1;
	}
	// a level without tiles stays empty
	let other: u8 = if Z0 != 7 && Z1 != 7 && Z2 != 7 { 7 } else { 8 };
	assert!(pyr.get_level_bbox(other).is_empty(), "a level without tiles has a non-empty box");
	kani::cover!(cs[2].x > 0 && cs[2].y > 0);
}

macro_rules! fold {
	($name:ident, $a:expr, $b:expr, $c:expr) => {
		#[kani::proof]
		#[kani::unwind(34)]
		#[kani::stub(std::fmt::format, crate::verif_kani::stubs::fmt_format)]
		#[kani::stub(std::backtrace::Backtrace::capture, crate::verif_kani::stubs::backtrace_capture)]
		#[kani::stub(u32::pow, crate::verif_kani::stubs::u32_pow)]
		fn $name() {
			include_fold::<$a, $b, $c>();
		}
	};
}
fold!(c03_include_coord_fold_5_5_5, 5, 5, 5);
fold!(c03_include_coord_fold_0_31_5, 0, 31, 5);
fold!(c03_include_coord_fold_31_31_31, 31, 31, 31);

// C03-H3: pipeline unions keep both operands (overlay / merge advertise include_bbox_pyramid of their sources) — see C15 h11_pyramid_include
