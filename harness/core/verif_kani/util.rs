// helpers shared by the versatiles_core harnesses
#![allow(dead_code)]
use crate::types::*;

/// Result -> Option without ever running anyhow's drop glue.
pub fn ok<T>(r: anyhow::Result<T>) -> Option<T> {
	match r {
		Ok(v) => Some(v),
		Err(e) => {
			std::mem::forget(e);
			None
		}
	}
}

/// The closure of what `new`, `new_full`, `new_empty`, `set_empty`, `intersect_bbox`,
/// `include_*` (with in-range coordinates), `flip_y`, `swap_xy` can produce.
pub fn valid_bbox(b: &TileBBox) -> bool {
	b.level <= 31
		&& b.max == ((1u64 << b.level) - 1) as u32
		&& b.x_max <= b.max
		&& b.y_max <= b.max
		&& b.x_min as u64 <= b.max as u64 + 1
		&& b.y_min as u64 <= b.max as u64 + 1
}

pub fn any_bbox_at(level: u8) -> TileBBox {
	let b = TileBBox {
		level,
		max: ((1u64 << level) - 1) as u32,
		x_min: kani::any(),
		y_min: kani::any(),
		x_max: kani::any(),
		y_max: kani::any(),
	};
	kani::assume(valid_bbox(&b));
	b
}

pub fn any_bbox() -> TileBBox {
	let level: u8 = kani::any();
	kani::assume(level <= 31);
	any_bbox_at(level)
}

pub fn any_coord2() -> TileCoord2 {
	TileCoord2 { x: kani::any(), y: kani::any() }
}

/// set semantics of a box, written independently of the repository's `contains2`
pub fn inb(b: &TileBBox, p: &TileCoord2) -> bool {
	b.x_min <= p.x && p.x <= b.x_max && b.y_min <= p.y && p.y <= b.y_max
}

pub fn exists_common(a: &TileBBox, b: &TileBBox) -> bool {
	let x0 = a.x_min.max(b.x_min);
	let x1 = a.x_max.min(b.x_max);
	let y0 = a.y_min.max(b.y_min);
	let y1 = a.y_max.min(b.y_max);
	x0 <= x1 && y0 <= y1 && a.x_min <= a.x_max && a.y_min <= a.y_max && b.x_min <= b.x_max && b.y_min <= b.y_max
}

pub fn same_set(a: &TileBBox, b: &TileBBox) -> bool {
	let ea = a.x_min > a.x_max || a.y_min > a.y_max;
	let eb = b.x_min > b.x_max || b.y_min > b.y_max;
	if ea || eb {
		ea && eb
	} else {
		a.x_min == b.x_min && a.x_max == b.x_max && a.y_min == b.y_min && a.y_max == b.y_max
	}
}
