// C17 — JSON string kernel: the serialiser's escaping equals an RFC 8259 reference escaper (real formatting, no parser)
use super::stringify::{escape_json_string, stringify};
use super::JsonValue;

/// reference escaper, written from RFC 8259 section 7
fn ref_escape(c: char, out: &mut Vec<u8>) {
	const HEX: &[u8; 16] = b"0123456789abcdef";
	match c {
		'"' => out.extend_from_slice(b"\\\""),
		'\\' => out.extend_from_slice(b"\\\\"),
		'\n' => out.extend_from_slice(b"\\n"),
		'\r' => out.extend_from_slice(b"\\r"),
		'\t' => out.extend_from_slice(b"\\t"),
		'\u{08}' => out.extend_from_slice(b"\\b"),
		'\u{0c}' => out.extend_from_slice(b"\\f"),
		c if (c as u32) < 0x20 || ((c as u32) >= 0x7f && (c as u32) <= 0x9f) => {
			let v = c as u32;
			out.extend_from_slice(&[b'\\', b'u', b'0', b'0', HEX[(v >> 4) as usize], HEX[(v & 15) as usize]]);
		}
		c => {
			let mut buf = [0u8; 4];
			out.extend_from_slice(c.encode_utf8(&mut buf).as_bytes());
		}
	}
}

/// standard-JSON check of a string body: no raw control character below 0x20, no bare quote, every backslash starts a legal escape
fn is_standard_body(b: &[u8]) -> bool {
	let mut i = 0;
	while i < b.len() {
		let c = b[i];
		if c < 0x20 || c == b'"' {
			return false;
		}
		if c == b'\\' {
			if i + 1 >= b.len() {
				return false;
			}
			match b[i + 1] {
				b'"' | b'\\' | b'/' | b'b' | b'f' | b'n' | b'r' | b't' => i += 2,
				b'u' => {
					if i + 5 >= b.len() + 0 && i + 6 > b.len() {
						return false;
					}
					let mut k = 2;
					while k < 6 {
						let h = b[i + k];
						if !(h.is_ascii_digit() || (b'a'..=b'f').contains(&h) || (b'A'..=b'F').contains(&h)) {
							return false;
						}
						k += 1;
					}
					i += 6;
				}
				_ => return false,
			}
		} else {
			i += 1;
		}
	}
	true
}

#[kani::proof]
#[kani::unwind(10)]
fn c17_escape_one_char() {
	let c: char = kani::any();
	let mut buf = [0u8; 4];
	let s = c.encode_utf8(&mut buf);
	let got = escape_json_string(s);
	let mut want = Vec::with_capacity(8);
	ref_escape(c, &mut want);
	assert!(got.as_bytes() == &want[..], "escape_json_string differs from the RFC 8259 reference escaper");
	assert!(is_standard_body(got.as_bytes()), "serialised string is not standard JSON");
	kani::cover!((c as u32) < 0x20 && c != '\n');
	kani::cover!((c as u32) > 0xffff);
	std::mem::forget(got);
}

#[kani::proof]
#[kani::unwind(12)]
fn c17_stringify_string_value() {
	let c: char = kani::any();
	let mut buf = [0u8; 4];
	let s = c.encode_utf8(&mut buf);
	let v = JsonValue::String(s.to_string());
	let got = stringify(&v);
	let mut want = Vec::with_capacity(10);
	want.push(b'"');
	ref_escape(c, &mut want);
	want.push(b'"');
	assert!(got.as_bytes() == &want[..], "stringify(String) is not the quoted reference escape");
	kani::cover!(c == '"');
	std::mem::forget(got);
	std::mem::forget(v);
}
