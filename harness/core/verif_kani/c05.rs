// C05 — content negotiation kernel: optimize_compression over every (stored compression, allowed set, goal).
use super::util::*;
use crate::types::*;
use crate::utils::*;
use enumset::EnumSet;

const COMPS: [TileCompression; 3] = [TileCompression::Uncompressed, TileCompression::Gzip, TileCompression::Brotli];

fn set_of(mask: u8) -> EnumSet<TileCompression> {
	let mut s = EnumSet::empty();
	if mask & 1 != 0 {
		s.insert(TileCompression::Uncompressed);
	}
	if mask & 2 != 0 {
		s.insert(TileCompression::Gzip);
	}
	if mask & 4 != 0 {
		s.insert(TileCompression::Brotli);
	}
	s
}

/// one configuration; the payload stays symbolic
fn check(payload: &Blob, src: TileCompression, mask: u8, goal: u8) {
	let stored = ok(compress(payload.clone(), &src)).unwrap();
	let mut target = TargetCompression::from_set(set_of(mask));
	match goal {
		1 => target.set_fast_compression(),
		2 => target.set_incompressible(),
		_ => {}
	}
	let r = ok(optimize_compression(stored.clone(), &src, &target));
	if mask & 1 == 0 {
		assert!(r.is_none(), "negotiation must fail when the client set lacks the identity encoding");
		return;
	}
	assert!(r.is_some(), "negotiation failed although identity is allowed");
	let (out, c) = r.unwrap();
	assert!(target.contains(c), "response encoding is not one the client listed");
	let back = ok(decompress(out.clone(), &c));
	assert!(back.is_some() && back.unwrap().as_slice() == payload.as_slice(), "body does not decode to the stored tile");
	if goal == 2 {
		assert!(c == src || c == TileCompression::Uncompressed, "an incompressible tile got an additional encoding");
	}
	if goal != 0 && target.contains(src) {
		assert!(c == src && out.as_slice() == stored.as_slice(), "fast/incompressible mode must keep an allowed stored encoding");
	}
	if goal == 0 && mask & 4 != 0 {
		assert!(c == TileCompression::Brotli, "best mode must pick brotli when allowed");
	}
}

macro_rules! negotiation {
	($name:ident, $src:expr) => {
		#[kani::proof]
		#[kani::unwind(10)]
		#[kani::stub(std::fmt::format, crate::verif_kani::stubs::fmt_format)]
		#[kani::stub(std::backtrace::Backtrace::capture, crate::verif_kani::stubs::backtrace_capture)]
		#[kani::stub(crate::utils::compress_gzip, crate::verif_kani::codec::compress_gzip)]
		#[kani::stub(crate::utils::compress_brotli, crate::verif_kani::codec::compress_brotli)]
		#[kani::stub(crate::utils::compress_brotli_fast, crate::verif_kani::codec::compress_brotli_fast)]
		#[kani::stub(crate::utils::decompress_gzip, crate::verif_kani::codec::decompress_gzip)]
		#[kani::stub(crate::utils::decompress_brotli, crate::verif_kani::codec::decompress_brotli)]
		fn $name() {
			let bytes: [u8; 2] = kani::any();
			let payload = Blob::from(bytes.to_vec());
			let mut mask = 0u8;
			while mask < 8 {
				let mut goal = 0u8;
				while goal < 3 {
					check(&payload, COMPS[$src], mask, goal);
					goal += 1;
				}
				mask += 1;
			}
			kani::cover!(bytes[0] == 0x1f, "payload that looks like a codec tag");
		}
	};
}
negotiation!(c05_h1_negotiation_uncompressed, 0);
negotiation!(c05_h1_negotiation_gzip, 1);
negotiation!(c05_h1_negotiation_brotli, 2);
