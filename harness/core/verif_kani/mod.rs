// Kani harnesses for versatiles_core (overlay; exists only in the scratch copy)
#![allow(unused_imports, dead_code, clippy::all)]
pub use crate::types::Blob as BlobT;
pub mod codec;
pub mod stubs;
pub mod util;
pub mod vmap;
mod c15;
mod c19;
mod c15geo;
mod c15pyr;
mod c05;
mod c02;
