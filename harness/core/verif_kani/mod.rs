// Kani harnesses for versatiles_core (overlay; exists only in the scratch copy)
#![allow(unused_imports, dead_code, clippy::all)]
pub mod stubs;
pub mod util;
pub mod vmap;
mod c15;
