// C19 — decoders of versatiles_core never bring the process down (PBF / varint primitives).
use super::stubs::set_alloc_limit;
use super::util::*;
use crate::io::*;

fn any_bytes<const N: usize>() -> [u8; N] {
	kani::any()
}

macro_rules! pbf_harness {
	($name:ident, $n:expr, $unw:expr, |$r:ident| $body:expr) => {
		#[kani::proof]
		#[kani::unwind($unw)]
		#[kani::stub(std::fmt::format, crate::verif_kani::stubs::fmt_format)]
		#[kani::stub(std::backtrace::Backtrace::capture, crate::verif_kani::stubs::backtrace_capture)]
		#[kani::stub(alloc::vec::from_elem, crate::verif_kani::stubs::vec_from_elem)]
		fn $name() {
			let data: [u8; $n] = any_bytes::<$n>();
			set_alloc_limit($n);
			let mut $r = ValueReaderSlice::new_le(&data);
			let res = $body;
			let is_ok = res.is_ok();
			std::mem::forget(res);
			kani::cover!(is_ok, "some input decodes");
			kani::cover!(!is_ok, "some input is rejected");
		}
	};
}

pbf_harness!(c19_varint_11, 11, 13, |r| r.read_varint());
pbf_harness!(c19_svarint_11, 11, 13, |r| r.read_svarint());
pbf_harness!(c19_pbf_key_11, 11, 13, |r| r.read_pbf_key());
pbf_harness!(c19_pbf_blob_4, 4, 13, |r| r.read_pbf_blob());
pbf_harness!(c19_pbf_blob_11, 11, 13, |r| r.read_pbf_blob());
pbf_harness!(c19_pbf_string_3, 3, 13, |r| r.read_pbf_string());
pbf_harness!(c19_pbf_string_11, 11, 13, |r| r.read_pbf_string());
pbf_harness!(c19_pbf_packed_4, 4, 13, |r| r.read_pbf_packed_uint32());
pbf_harness!(c19_pbf_packed_11, 11, 13, |r| r.read_pbf_packed_uint32());
pbf_harness!(c19_pbf_sub_reader_11, 11, 13, |r| r.get_pbf_sub_reader().map(|_| ()));

// length-delimited fields whose announced length exceeds the whole buffer (up to u64::MAX: multi-byte varints) must be
// rejected - no overflow of position + length, no allocation of the announced length. The accepting paths of the packed /
// string / sub-reader decoders go through Box<dyn ValueReader> or from_utf8 and never finished (DESIGN 0.2 item 5); this
// instance cuts them off by assuming the overlong length, decoded by the harness' own reference varint reader.
fn ref_varint(b: &[u8]) -> Option<(u64, usize)> {
	let mut v: u64 = 0;
	let mut i = 0usize;
	while i < b.len() && i < 10 {
		let byte = b[i];
		if i < 9 || byte <= 1 {
			v |= ((byte & 0x7f) as u64) << (7 * i as u32);
		}
		if byte & 0x80 == 0 {
			return Some((v, i + 1));
		}
		i += 1;
	}
	None
}

macro_rules! overlong_harness {
	($name:ident, |$r:ident| $body:expr) => {
		#[kani::proof]
		#[kani::unwind(13)]
		#[kani::stub(std::fmt::format, crate::verif_kani::stubs::fmt_format)]
		#[kani::stub(std::backtrace::Backtrace::capture, crate::verif_kani::stubs::backtrace_capture)]
		#[kani::stub(alloc::vec::from_elem, crate::verif_kani::stubs::vec_from_elem)]
		fn $name() {
			let data: [u8; 11] = any_bytes::<11>();
			let d = ref_varint(&data);
			kani::assume(d.is_some());
			let (len, _used) = d.unwrap();
			kani::assume(len > 11);
			set_alloc_limit(11);
			let mut $r = ValueReaderSlice::new_le(&data);
			let res = $body;
			let is_ok = res.is_ok();
			std::mem::forget(res);
			assert!(!is_ok, "a field announcing more bytes than the buffer holds is accepted");
			kani::cover!(len > u64::MAX - 4, "length near u64::MAX");
			kani::cover!(len == 12);
		}
	};
}
overlong_harness!(c19_pbf_packed_overlong, |r| r.read_pbf_packed_uint32());
overlong_harness!(c19_pbf_blob_overlong, |r| r.read_pbf_blob());
overlong_harness!(c19_pbf_string_overlong, |r| r.read_pbf_string());
overlong_harness!(c19_pbf_sub_reader_overlong, |r| r.get_pbf_sub_reader().map(|_| ()));

// get_sub_reader / read_blob / read_string with an arbitrary announced length at an arbitrary position
#[kani::proof]
#[kani::unwind(10)]
#[kani::stub(std::fmt::format, crate::verif_kani::stubs::fmt_format)]
#[kani::stub(std::backtrace::Backtrace::capture, crate::verif_kani::stubs::backtrace_capture)]
#[kani::stub(alloc::vec::from_elem, crate::verif_kani::stubs::vec_from_elem)]
fn c19_sub_reader_any_length() {
	let data: [u8; 8] = kani::any();
	set_alloc_limit(8);
	let mut r = ValueReaderSlice::new_le(&data);
	let skip: u8 = kani::any();
	kani::assume(skip < 8);
	let _ = ok(r.set_position(skip as u64));
	let length: u64 = kani::any();
	let which: u8 = kani::any();
	let good = match which % 3 {
		0 => {
			let s = r.get_sub_reader(length);
			let g = s.is_ok();
			std::mem::forget(s);
			g
		}
		1 => {
			let s = r.read_blob(length);
			let g = s.is_ok();
			std::mem::forget(s);
			g
		}
		_ => {
			let s = r.read_string(length);
			let g = s.is_ok();
			std::mem::forget(s);
			g
		}
	};
	if good {
		assert!(length <= 8 - skip as u64);
	}
	kani::cover!(good && length > 0);
	kani::cover!(!good && length > u64::MAX / 2);
}

// get_sub_reader alone: any position, ANY announced length (u64) - accepted only if it fits, never an overflow of position + length
#[kani::proof]
#[kani::unwind(10)]
#[kani::stub(std::fmt::format, crate::verif_kani::stubs::fmt_format)]
#[kani::stub(std::backtrace::Backtrace::capture, crate::verif_kani::stubs::backtrace_capture)]
fn c19_get_sub_reader_any_length() {
	let data: [u8; 8] = kani::any();
	let mut r = ValueReaderSlice::new_le(&data);
	let skip: u8 = kani::any();
	kani::assume(skip <= 8);
	let _ = ok(r.set_position(skip as u64));
	let length: u64 = kani::any();
	let s = r.get_sub_reader(length);
	let good = s.is_ok();
	std::mem::forget(s);
	if good {
		assert!(length <= 8 - skip as u64, "a sub-reader longer than the remaining bytes is handed out");
	} else {
		assert!(length > 8 - skip as u64, "a sub-reader that fits is refused");
	}
	kani::cover!(good && length > 0);
	kani::cover!(!good && length > u64::MAX - 4);
}

// varint round trip: write_varint then read_varint is the identity on all u64; svarint on all i64
#[kani::proof]
#[kani::unwind(12)]
#[kani::stub(std::fmt::format, crate::verif_kani::stubs::fmt_format)]
#[kani::stub(std::backtrace::Backtrace::capture, crate::verif_kani::stubs::backtrace_capture)]
fn c11_varint_roundtrip() {
	let v: u64 = kani::any();
	let mut w = ValueWriterBlob::new_le();
	ok(w.write_varint(v)).unwrap();
	let blob = w.into_blob();
	let n = blob.len() as u64;
	assert!(n >= 1 && n <= 10);
	// canonical length: ceil(bits/7)
	let bits = 64 - v.leading_zeros() as u64;
	assert!(n == (if bits == 0 { 1 } else { (bits + 6) / 7 }));
	let mut r = ValueReaderSlice::new_le(blob.as_slice());
	let back = ok(r.read_varint());
	assert!(back == Some(v), "read_varint(write_varint(v)) != v");
	assert!(r.position() == n, "read_varint consumed a different number of bytes than were written");
	kani::cover!(v > u64::MAX / 2);
	std::mem::forget(blob);
}

#[kani::proof]
#[kani::unwind(12)]
#[kani::stub(std::fmt::format, crate::verif_kani::stubs::fmt_format)]
#[kani::stub(std::backtrace::Backtrace::capture, crate::verif_kani::stubs::backtrace_capture)]
fn c11_svarint_roundtrip() {
	let v: i64 = kani::any();
	let mut w = ValueWriterBlob::new_le();
	ok(w.write_svarint(v)).unwrap();
	let blob = w.into_blob();
	let mut r = ValueReaderSlice::new_le(blob.as_slice());
	let back = ok(r.read_svarint());
	assert!(back == Some(v), "read_svarint(write_svarint(v)) != v");
	// zigzag: small magnitudes are short
	if v >= -64 && v < 64 {
		assert!(blob.len() as u64 == 1);
	}
	kani::cover!(v == i64::MIN);
	kani::cover!(v == -1);
	std::mem::forget(blob);
}
