// C15-H11: pyramids apply the box operation level by level (all 32 levels symbolic)
use super::util::*;
use crate::types::*;
use crate::utils::TransformCoord;

fn any_pyramid() -> TileBBoxPyramid {
	TileBBoxPyramid { level_bbox: std::array::from_fn(|z| any_bbox_at(z as u8)) }
}

fn any_level() -> u8 {
	let l: u8 = kani::any();
	kani::assume(l <= 31);
	l
}

#[kani::proof]
#[kani::unwind(34)]
#[kani::stub(std::fmt::format, crate::verif_kani::stubs::fmt_format)]
#[kani::stub(std::backtrace::Backtrace::capture, crate::verif_kani::stubs::backtrace_capture)]
fn c15_h11_pyramid_intersect() {
	let a = any_pyramid();
	let b = any_pyramid();
	let l = any_level();
	let p = any_coord2();
	let mut c = a.clone();
	c.intersect(&b);
	let (la, lb, lc) = (a.get_level_bbox(l), b.get_level_bbox(l), c.get_level_bbox(l));
	assert_eq!(inb(lc, &p), inb(la, &p) && inb(lb, &p), "pyramid intersect is not the level-wise set intersection");
	assert!(lc.level == l && valid_bbox(lc));
	kani::cover!(!lc.is_empty() && lc != la && lc != lb);
	kani::cover!(!la.is_empty() && lb.is_empty());
}

// the same law with a CONCRETE second operand that has holes in its zoom range (populated at levels 2, 5 and 31 only):
// however the implementation iterates over the operand (all levels, populated levels, zoom range), the iteration stays
// concrete, so this instance still gets a verdict where the fully symbolic one above times out on a rewritten loop
#[kani::proof]
#[kani::unwind(34)]
#[kani::stub(std::fmt::format, crate::verif_kani::stubs::fmt_format)]
#[kani::stub(std::backtrace::Backtrace::capture, crate::verif_kani::stubs::backtrace_capture)]
fn c15_h11_pyramid_intersect_gapped() {
	let a = any_pyramid();
	let mut b = TileBBoxPyramid::new_empty();
	b.level_bbox[2] = TileBBox { level: 2, x_min: 0, y_min: 0, x_max: 3, y_max: 3, max: 3 };
	b.level_bbox[5] = TileBBox { level: 5, x_min: 3, y_min: 7, x_max: 20, y_max: 9, max: 31 };
	b.level_bbox[31] = TileBBox { level: 31, x_min: 5, y_min: 5, x_max: u32::MAX >> 1, y_max: 6, max: u32::MAX >> 1 };
	let l = any_level();
	let p = any_coord2();
	let mut c = a.clone();
	c.intersect(&b);
	let (la, lb, lc) = (a.get_level_bbox(l), b.get_level_bbox(l), c.get_level_bbox(l));
	assert_eq!(inb(lc, &p), inb(la, &p) && inb(lb, &p), "pyramid intersect is not the level-wise set intersection (operand with gaps in its zoom range)");
	assert!(lc.level == l && valid_bbox(lc));
	kani::cover!(l == 3 && !la.is_empty());
	kani::cover!(l == 5 && !lc.is_empty());
}

// C09: intersect_geo_bbox narrows EVERY level by the tile box the geographic box maps to at that level. The subject here is the
// level iteration (from_geo itself is decided by the c15_h12/h13 harnesses), so from_geo is replaced by a fixed non-empty
// box per level; the pyramid is symbolic on all 32 levels, in particular empty on low levels and populated above them.
fn from_geo_model(level: u8, _bbox: &GeoBBox) -> anyhow::Result<TileBBox> {
	let max = ((1u64 << level) - 1) as u32;
	Ok(TileBBox { level, x_min: max / 4, y_min: 0, x_max: max / 2, y_max: max, max })
}

// SHAPE: 0 = all levels symbolic; 1 = levels 0..=2 concretely empty (coverage starts at zoom 3); 2 = level 4 concretely empty
// (a gap). The concrete shapes keep an implementation that stops or skips at empty levels cheap for the solver.
fn intersect_geo_levels<const SHAPE: u8>() {
	let mut a = any_pyramid();
	if SHAPE == 1 {
		a.level_bbox[0] = TileBBox::new_empty(0).unwrap();
		a.level_bbox[1] = TileBBox::new_empty(1).unwrap();
		a.level_bbox[2] = TileBBox::new_empty(2).unwrap();
	}
	if SHAPE == 2 {
		a.level_bbox[4] = TileBBox::new_empty(4).unwrap();
	}
	let g = GeoBBox(0.0, 0.0, 1.0, 1.0);
	let l = any_level();
	let p = any_coord2();
	let mut c = a.clone();
	c.intersect_geo_bbox(&g);
	// stubbed under Kani (from_geo_model), the real function in native playback: the expectation follows in both
	let want = TileBBox::from_geo(l, &g).unwrap();
	let (la, lc) = (a.get_level_bbox(l), c.get_level_bbox(l));
	assert_eq!(inb(lc, &p), inb(la, &p) && inb(&want, &p), "intersect_geo_bbox does not narrow this level to the box of the geographic bbox");
	assert!(lc.level == l && valid_bbox(lc));
	kani::cover!(l > 4 && a.get_level_bbox(0).is_empty() && !lc.is_empty(), "coverage that starts above level 0");
	kani::cover!(!la.is_empty() && lc.is_empty());
}
macro_rules! geo_levels {
	($name:ident, $shape:expr) => {
		#[kani::proof]
		#[kani::unwind(34)]
		#[kani::stub(std::fmt::format, crate::verif_kani::stubs::fmt_format)]
		#[kani::stub(std::backtrace::Backtrace::capture, crate::verif_kani::stubs::backtrace_capture)]
		#[kani::stub(u32::pow, crate::verif_kani::stubs::u32_pow)]
		#[kani::stub(crate::types::tile_bbox::TileBBox::from_geo, from_geo_model)]
		fn $name() {
			intersect_geo_levels::<$shape>();
		}
	};
}
geo_levels!(c09_intersect_geo_levels, 0);
geo_levels!(c09_intersect_geo_levels_from3, 1);
geo_levels!(c09_intersect_geo_levels_gap4, 2);

// include_bbox_pyramid: level-wise bounding union. The included pyramid is symbolic on ONE level (concrete per
// instance) and empty elsewhere: iter_levels' filter position then stays concrete (32 symbolic levels: out of memory).
fn pyramid_include<const L: usize>() {
	let a = any_pyramid();
	let mut b = TileBBoxPyramid::new_empty();
	b.level_bbox[L] = any_bbox_at(L as u8);
	let l = any_level();
	let p = any_coord2();
	let mut c = a.clone();
	c.include_bbox_pyramid(&b);
	let (la, lb, lc) = (a.get_level_bbox(l), b.get_level_bbox(l), c.get_level_bbox(l));
	if inb(la, &p) || inb(lb, &p) {
		assert!(inb(lc, &p), "include_bbox_pyramid lost a tile");
	}
	match (la.is_empty(), lb.is_empty()) {
		(true, true) => assert!(lc.is_empty(), "union of two empty levels is not empty"),
		(true, false) => assert!(same_set(lc, lb), "union with an empty level differs from the other operand"),
		(false, true) => assert!(same_set(lc, la), "union with an empty level differs from the other operand"),
		(false, false) => assert!(
			lc.x_min == la.x_min.min(lb.x_min) && lc.x_max == la.x_max.max(lb.x_max) && lc.y_min == la.y_min.min(lb.y_min) && lc.y_max == la.y_max.max(lb.y_max),
			"level union is not the bounding box of both"
		),
	}
	if l as usize != L {
		assert!(lc == la, "include_bbox_pyramid changed a level on which the other pyramid is empty");
	}
	kani::cover!(l as usize == L && la.is_empty() && la.x_min <= la.x_max && !lb.is_empty());
	kani::cover!(l as usize == L && !la.is_empty() && !lb.is_empty() && lc != la && lc != lb);
}

macro_rules! pinst {
	($name:ident, $f:ident, $l:expr) => {
		#[kani::proof]
		#[kani::unwind(34)]
		#[kani::stub(std::fmt::format, crate::verif_kani::stubs::fmt_format)]
		#[kani::stub(std::backtrace::Backtrace::capture, crate::verif_kani::stubs::backtrace_capture)]
		#[kani::stub(u32::pow, crate::verif_kani::stubs::u32_pow)]
		fn $name() {
			$f::<$l>();
		}
	};
}
pinst!(c15_h11_pyramid_include_l0, pyramid_include, 0);
pinst!(c15_h11_pyramid_include_l7, pyramid_include, 7);
pinst!(c15_h11_pyramid_include_l31, pyramid_include, 31);

// overlaps_bbox at a concrete level per instance (a symbolic level keeps the level-mismatch error path, and with it
// anyhow's drop glue, alive)
fn pyramid_overlaps<const L: usize>() {
	let a = any_pyramid();
	let bx = any_bbox_at(L as u8);
	assert_eq!(a.overlaps_bbox(&bx), exists_common(a.get_level_bbox(L as u8), &bx), "overlaps_bbox differs from level-wise overlap");
	kani::cover!(a.overlaps_bbox(&bx));
	kani::cover!(L == 0 || (!a.overlaps_bbox(&bx) && !bx.is_empty() && !a.get_level_bbox(L as u8).is_empty()));
}
pinst!(c15_h11_pyramid_overlaps_l0, pyramid_overlaps, 0);
pinst!(c15_h11_pyramid_overlaps_l9, pyramid_overlaps, 9);
pinst!(c15_h11_pyramid_overlaps_l31, pyramid_overlaps, 31);

#[kani::proof]
#[kani::unwind(34)]
#[kani::stub(std::fmt::format, crate::verif_kani::stubs::fmt_format)]
#[kani::stub(std::backtrace::Backtrace::capture, crate::verif_kani::stubs::backtrace_capture)]
fn c15_h11_pyramid_include_one() {
	// include_bbox / include_coord touch exactly one level
	let a = any_pyramid();
	let l = any_level();
	let l2 = any_level();
	let la = a.get_level_bbox(l);
	let bx = any_bbox_at(l);
	let mut d = a.clone();
	d.include_bbox(&bx);
	if l2 != l {
		assert!(d.get_level_bbox(l2) == a.get_level_bbox(l2), "include_bbox changed another level");
	} else {
		let mut w = la.clone();
		ok(w.include_bbox(&bx)).unwrap();
		assert!(d.get_level_bbox(l) == &w, "pyramid include_bbox differs from the box operation");
	}
	let q = any_coord2();
	kani::assume(q.x <= la.max && q.y <= la.max);
	let mut e = a.clone();
	e.include_coord(&TileCoord3 { x: q.x, y: q.y, z: l });
	assert!(e.contains_coord(&TileCoord3 { x: q.x, y: q.y, z: l }), "included coordinate is not contained");
	if l2 != l {
		assert!(e.get_level_bbox(l2) == a.get_level_bbox(l2), "include_coord changed another level");
	} else {
		let mut w = la.clone();
		w.include_coord(q.x, q.y);
		assert!(e.get_level_bbox(l) == &w);
	}
	kani::cover!(l2 != l && !bx.is_empty());
	kani::cover!(l2 == l && la.is_empty());
}

#[kani::proof]
#[kani::unwind(34)]
#[kani::stub(std::fmt::format, crate::verif_kani::stubs::fmt_format)]
#[kani::stub(std::backtrace::Backtrace::capture, crate::verif_kani::stubs::backtrace_capture)]
fn c15_h11_pyramid_contains() {
	let a = any_pyramid();
	let l = any_level();
	let p = any_coord2();
	let la = a.get_level_bbox(l);
	let z: u8 = kani::any();
	let c3 = TileCoord3 { x: p.x, y: p.y, z };
	let want = z <= 31 && inb(a.get_level_bbox(z.min(31)), &p);
	assert_eq!(a.contains_coord(&c3), want, "contains_coord differs from level-wise containment");
	kani::cover!(want && z == 31);
	kani::cover!(z > 31);
}

#[kani::proof]
#[kani::unwind(34)]
fn c15_h11_pyramid_zoom_min() {
	let a = any_pyramid();
	let l = any_level();
	let la = a.get_level_bbox(l);
	match a.get_zoom_min() {
		Some(m) => {
			assert!(m <= 31 && !a.get_level_bbox(m).is_empty(), "get_zoom_min names an empty level");
			if l < m {
				assert!(la.is_empty(), "a non-empty level below get_zoom_min");
			}
		}
		None => assert!(la.is_empty(), "get_zoom_min is None although a level is non-empty"),
	}
	assert_eq!(a.is_empty(), a.get_zoom_min().is_none(), "is_empty disagrees with get_zoom_min");
	kani::cover!(a.get_zoom_min() == Some(3));
	kani::cover!(a.is_empty());
}

#[kani::proof]
#[kani::unwind(34)]
fn c15_h11_pyramid_zoom_max() {
	let a = any_pyramid();
	let l = any_level();
	let la = a.get_level_bbox(l);
	match a.get_zoom_max() {
		Some(m) => {
			assert!(m <= 31 && !a.get_level_bbox(m).is_empty(), "get_zoom_max names an empty level");
			if l > m {
				assert!(la.is_empty(), "a non-empty level above get_zoom_max");
			}
		}
		None => assert!(la.is_empty(), "get_zoom_max is None although a level is non-empty"),
	}
	kani::cover!(a.get_zoom_max() == Some(17));
	kani::cover!(a.get_zoom_max().is_none());
}

#[kani::proof]
#[kani::unwind(34)]
#[kani::stub(std::fmt::format, crate::verif_kani::stubs::fmt_format)]
#[kani::stub(std::backtrace::Backtrace::capture, crate::verif_kani::stubs::backtrace_capture)]
fn c15_h11_pyramid_zoom_limits() {
	let a = any_pyramid();
	let l = any_level();
	let p = any_coord2();
	let zmin: u8 = kani::any();
	let zmax: u8 = kani::any();
	let mut c = a.clone();
	c.set_zoom_min(zmin);
	c.set_zoom_max(zmax);
	let keep = l >= zmin && l <= zmax;
	assert_eq!(inb(c.get_level_bbox(l), &p), keep && inb(a.get_level_bbox(l), &p), "set_zoom_min/max do not keep exactly the levels in range");
	assert!(valid_bbox(c.get_level_bbox(l)) && c.get_level_bbox(l).level == l);
	kani::cover!(zmin > zmax);
	kani::cover!(keep && !a.get_level_bbox(l).is_empty());
	kani::cover!(zmax > 31 && zmin == 0);
}

#[kani::proof]
#[kani::unwind(34)]
#[kani::stub(u32::pow, crate::verif_kani::stubs::u32_pow)]
fn c15_h11_pyramid_transform() {
	let a = any_pyramid();
	let l = any_level();
	let mut f = a.clone();
	f.flip_y();
	let mut want = a.get_level_bbox(l).clone();
	want.flip_y();
	assert!(f.get_level_bbox(l) == &want, "pyramid flip_y differs from the box flip on that level");
	let mut s = a.clone();
	s.swap_xy();
	let mut want = a.get_level_bbox(l).clone();
	want.swap_xy();
	assert!(s.get_level_bbox(l) == &want, "pyramid swap_xy differs from the box swap on that level");
	kani::cover!(!a.get_level_bbox(l).is_empty() && l == 31);
}

#[kani::proof]
#[kani::unwind(34)]
fn c15_h11_pyramid_eq() {
	let a = any_pyramid();
	let b = any_pyramid();
	let l = any_level();
	if a == b {
		assert!(same_set(a.get_level_bbox(l), b.get_level_bbox(l)), "equal pyramids differ as sets on a level");
	} else {
		let mut all_same = true;
		let mut i = 0u8;
		while i < 32 {
			if !same_set(a.get_level_bbox(i), b.get_level_bbox(i)) {
				all_same = false;
			}
			i += 1;
		}
		assert!(!all_same, "pyramids that denote the same sets compare unequal");
	}
	kani::cover!(a == b && a.get_level_bbox(l).is_empty() && a.get_level_bbox(l) != b.get_level_bbox(l));
	kani::cover!(a != b);
}

#[kani::proof]
#[kani::unwind(34)]
#[kani::stub(std::fmt::format, crate::verif_kani::stubs::fmt_format)]
#[kani::stub(std::backtrace::Backtrace::capture, crate::verif_kani::stubs::backtrace_capture)]
#[kani::stub(u32::pow, crate::verif_kani::stubs::u32_pow)]
fn c15_h11_pyramid_ctor() {
	let m: u8 = kani::any();
	let l = any_level();
	let p = any_coord2();
	let f = TileBBoxPyramid::new_full(m);
	let lb = f.get_level_bbox(l);
	assert!(lb.level == l && valid_bbox(lb));
	let max = ((1u64 << l) - 1) as u32;
	assert_eq!(inb(lb, &p), l <= m && p.x <= max && p.y <= max, "new_full(m) is not the full box on levels <= m and empty above");
	let e = TileBBoxPyramid::new_empty();
	assert!(e.get_level_bbox(l).is_empty() && e.get_level_bbox(l).level == l && valid_bbox(e.get_level_bbox(l)));
	assert!(e.is_empty());
	kani::cover!(l <= m && l == 31);
	kani::cover!(l > m);
}

// C09: the box a filter stage hands to its source = requested box intersected with the coverage level
#[kani::proof]
#[kani::unwind(34)]
#[kani::stub(std::fmt::format, crate::verif_kani::stubs::fmt_format)]
#[kani::stub(std::backtrace::Backtrace::capture, crate::verif_kani::stubs::backtrace_capture)]
fn c09_intersect_pyramid() {
	let a = any_pyramid();
	let l = any_level();
	let q = any_bbox_at(l);
	let p = any_coord2();
	let mut r = q.clone();
	let res = ok(r.intersect_pyramid(&a));
	assert!(res.is_some(), "intersect_pyramid fails for a box of a valid level");
	assert_eq!(inb(&r, &p), inb(&q, &p) && inb(a.get_level_bbox(l), &p), "intersect_pyramid is not box AND coverage level");
	assert!(r.level == l && valid_bbox(&r));
	kani::cover!(!r.is_empty() && r != q);
	kani::cover!(r.is_empty() && !q.is_empty());
}
