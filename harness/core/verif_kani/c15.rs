// C15 — tile boxes and pyramids behave as the sets of tiles they denote.
// Integer laws: every level 0..=31, every u32 coordinate, both empty encodings.
use super::util::*;
use crate::types::*;
use crate::utils::TransformCoord;

// ---------------------------------------------------------------------------------------
// generator vacuity: every way the API can encode "empty" is admitted by any_bbox()
// ---------------------------------------------------------------------------------------
#[kani::proof]
#[kani::unwind(2)]
#[kani::stub(std::fmt::format, crate::verif_kani::stubs::fmt_format)]
#[kani::stub(std::backtrace::Backtrace::capture, crate::verif_kani::stubs::backtrace_capture)]
#[kani::stub(u32::pow, crate::verif_kani::stubs::u32_pow)]
fn c15_gen_closure() {
	// what the constructors produce satisfies the generator's predicate
	let level: u8 = kani::any();
	kani::assume(level <= 31);
	let e = ok(TileBBox::new_empty(level)).unwrap();
	assert!(valid_bbox(&e) && e.is_empty());
	let f = ok(TileBBox::new_full(level)).unwrap();
	assert!(valid_bbox(&f) && !f.is_empty());
	let mut s = f.clone();
	s.set_empty();
	assert!(valid_bbox(&s) && s.is_empty());
	let (a, b, c, d): (u32, u32, u32, u32) = (kani::any(), kani::any(), kani::any(), kani::any());
	if let Some(n) = ok(TileBBox::new(level, a, b, c, d)) {
		assert!(valid_bbox(&n) && !n.is_empty());
		assert!(a <= c && b <= d && c <= n.max && d <= n.max);
		assert!(n.x_min == a && n.y_min == b && n.x_max == c && n.y_max == d && n.level == level);
	} else {
		let max = (1u32 << level) - 1;
		assert!(a > c || b > d || c > max || d > max);
	}
	// intersect keeps the predicate (closure under the only mutator that inverts axes)
	let mut x = any_bbox();
	let y = any_bbox();
	if ok(x.intersect_bbox(&y)).is_some() {
		assert!(valid_bbox(&x));
	}
	kani::cover!(level == 31);
}

// H1: is_empty <=> denotes the empty set; contains3 = contains2 + level
#[kani::proof]
#[kani::unwind(2)]
fn c15_h1_empty_contains() {
	let b = any_bbox();
	let p = any_coord2();
	if b.is_empty() {
		assert!(!b.contains2(&p));
	} else {
		assert!(b.contains2(&TileCoord2::new(b.x_min, b.y_min)));
		assert!(b.contains2(&TileCoord2::new(b.x_max, b.y_max)));
	}
	assert_eq!(b.contains2(&p), inb(&b, &p));
	let z: u8 = kani::any();
	let p3 = TileCoord3 { x: p.x, y: p.y, z };
	assert_eq!(b.contains3(&p3), b.contains2(&p) && z == b.level);
	kani::cover!(b.is_empty() && b.x_min <= b.x_max);
	kani::cover!(!b.is_empty() && b.level == 31);
}

// H2: intersect_bbox = set intersection; Err exactly on level mismatch
#[kani::proof]
#[kani::unwind(2)]
#[kani::stub(std::fmt::format, crate::verif_kani::stubs::fmt_format)]
#[kani::stub(std::backtrace::Backtrace::capture, crate::verif_kani::stubs::backtrace_capture)]
fn c15_h2_intersect() {
	let a = any_bbox();
	let b = any_bbox();
	let p = any_coord2();
	let mut c = a.clone();
	match ok(c.intersect_bbox(&b)) {
		Some(()) => {
			assert!(a.level == b.level);
			assert_eq!(inb(&c, &p), inb(&a, &p) && inb(&b, &p));
			assert_eq!(c.is_empty(), !(exists_common(&a, &b)));
			assert!(c.level == a.level && c.max == a.max);
		}
		None => {
			assert!(a.level != b.level);
			assert!(c == a);
		}
	}
	kani::cover!(a.level == b.level && !c.is_empty() && c != a && c != b);
	kani::cover!(a.level == b.level && !a.is_empty() && !b.is_empty() && c.is_empty());
}

// H3: include_bbox = bounding union
#[kani::proof]
#[kani::unwind(2)]
#[kani::stub(std::fmt::format, crate::verif_kani::stubs::fmt_format)]
#[kani::stub(std::backtrace::Backtrace::capture, crate::verif_kani::stubs::backtrace_capture)]
fn c15_h3_include_bbox() {
	let a = any_bbox();
	let b = any_bbox();
	let p = any_coord2();
	let mut c = a.clone();
	match ok(c.include_bbox(&b)) {
		Some(()) => {
			assert!(a.level == b.level);
			// superset of both
			if inb(&a, &p) || inb(&b, &p) {
				assert!(inb(&c, &p));
			}
			// tight: bounds are min/max of the non-empty operands
			match (a.is_empty(), b.is_empty()) {
				(true, true) => assert!(c.is_empty()),
				(true, false) => assert!(same_set(&c, &b)),
				(false, true) => assert!(same_set(&c, &a)),
				(false, false) => {
					assert!(c.x_min == a.x_min.min(b.x_min) && c.y_min == a.y_min.min(b.y_min));
					assert!(c.x_max == a.x_max.max(b.x_max) && c.y_max == a.y_max.max(b.y_max));
				}
			}
			assert!(c.level == a.level && c.max == a.max);
			assert!(valid_bbox(&c));
		}
		None => {
			assert!(a.level != b.level);
			assert!(c == a);
		}
	}
	kani::cover!(a.level == b.level && !a.is_empty() && !b.is_empty() && c != a && c != b);
	kani::cover!(a.level == b.level && a.is_empty() && !b.is_empty());
}

// H4: overlaps_bbox <=> a common tile exists
#[kani::proof]
#[kani::unwind(2)]
#[kani::stub(std::fmt::format, crate::verif_kani::stubs::fmt_format)]
#[kani::stub(std::backtrace::Backtrace::capture, crate::verif_kani::stubs::backtrace_capture)]
fn c15_h4_overlaps() {
	let a = any_bbox();
	let b = any_bbox();
	let p = any_coord2();
	match ok(a.overlaps_bbox(&b)) {
		Some(o) => {
			assert!(a.level == b.level);
			assert_eq!(o, exists_common(&a, &b));
			if inb(&a, &p) && inb(&b, &p) {
				assert!(o);
			}
			if o {
				// witness: the corner of the intersection lies in both
				let w = TileCoord2::new(a.x_min.max(b.x_min), a.y_min.max(b.y_min));
				assert!(inb(&a, &w) && inb(&b, &w));
			}
		}
		None => assert!(a.level != b.level),
	}
	kani::cover!(a.level == b.level && exists_common(&a, &b));
	kani::cover!(a.level == b.level && !a.is_empty() && !b.is_empty() && !exists_common(&a, &b));
}

// H5: include_coord / include_coord3
#[kani::proof]
#[kani::unwind(2)]
#[kani::stub(std::fmt::format, crate::verif_kani::stubs::fmt_format)]
#[kani::stub(std::backtrace::Backtrace::capture, crate::verif_kani::stubs::backtrace_capture)]
fn c15_h5_include_coord() {
	let a = any_bbox();
	let q = any_coord2();
	kani::assume(q.x <= a.max && q.y <= a.max); // documented: coordinates of that level
	let p = any_coord2();
	let mut c = a.clone();
	c.include_coord(q.x, q.y);
	assert!(inb(&c, &q));
	if inb(&a, &p) {
		assert!(inb(&c, &p));
	}
	if a.is_empty() {
		assert!(c.x_min == q.x && c.x_max == q.x && c.y_min == q.y && c.y_max == q.y);
	} else {
		assert!(c.x_min == a.x_min.min(q.x) && c.x_max == a.x_max.max(q.x));
		assert!(c.y_min == a.y_min.min(q.y) && c.y_max == a.y_max.max(q.y));
	}
	assert!(valid_bbox(&c));
	// the TileCoord3 variant: same result, Err exactly on a level mismatch
	let z: u8 = kani::any();
	let mut d = a.clone();
	match ok(d.include_coord3(&TileCoord3 { x: q.x, y: q.y, z })) {
		Some(()) => assert!(z == a.level && d == c),
		None => assert!(z != a.level && d == a),
	}
	kani::cover!(a.is_empty() && a.x_min <= a.x_max);
	kani::cover!(!a.is_empty() && !inb(&a, &q));
}

// H6: width/height/count_tiles against an independent u128 computation
#[kani::proof]
#[kani::unwind(2)]
fn c15_h6_count() {
	let b = any_bbox();
	let w: u128 = if b.x_max >= b.x_min { b.x_max as u128 - b.x_min as u128 + 1 } else { 0 };
	let h: u128 = if b.y_max >= b.y_min { b.y_max as u128 - b.y_min as u128 + 1 } else { 0 };
	assert!(b.width() as u128 == w);
	assert!(b.height() as u128 == h);
	if b.is_empty() {
		assert!(b.count_tiles() == 0);
	} else {
		assert!(b.count_tiles() as u128 == w * h);
		assert!(b.count_tiles() > 0);
	}
	kani::cover!(b.count_tiles() > u32::MAX as u64);
	kani::cover!(b.is_empty() && b.y_min <= b.y_max);
}

// H7: index <-> coordinate, row-major, for boxes of fewer than 2^32 tiles and width <= 2^16
#[kani::proof]
#[kani::unwind(2)]
#[kani::stub(std::fmt::format, crate::verif_kani::stubs::fmt_format)]
#[kani::stub(std::backtrace::Backtrace::capture, crate::verif_kani::stubs::backtrace_capture)]
fn c15_h7_index_roundtrip() {
	let b = any_bbox();
	kani::assume(b.width() <= 1 << 12 && b.height() <= 1 << 12);
	let p = any_coord2();
	match ok(b.get_tile_index2(&p)) {
		Some(i) => {
			assert!(inb(&b, &p));
			let want = (p.y - b.y_min) as u64 * (b.width() as u64) + (p.x - b.x_min) as u64;
			assert!(i as u64 == want);
			assert!((i as u64) < b.count_tiles());
			let q = ok(b.get_coord2_by_index(i as u32)).unwrap();
			assert!(q == p);
			let q3 = ok(b.get_coord3_by_index(i as u32)).unwrap();
			assert!(q3.x == p.x && q3.y == p.y && q3.z == b.level);
			let i3 = ok(b.get_tile_index3(&q3)).unwrap();
			assert!(i3 == i);
		}
		None => assert!(!inb(&b, &p)),
	}
	// the other direction: every index below count maps to a tile of the box with that index
	let i: u32 = kani::any();
	match ok(b.get_coord2_by_index(i)) {
		Some(q) => {
			assert!((i as u64) < b.count_tiles());
			assert!(inb(&b, &q));
			assert!(ok(b.get_tile_index2(&q)) == Some(i as usize));
		}
		None => assert!((i as u64) >= b.count_tiles()),
	}
	// wrong level is rejected by the 3-d variant
	let z: u8 = kani::any();
	if z != b.level {
		assert!(ok(b.get_tile_index3(&TileCoord3 { x: p.x, y: p.y, z })).is_none());
	}
	kani::cover!(inb(&b, &p) && b.width() > 1 && p.y > b.y_min);
}

// H7b: no size restriction: inside the box the index functions never fail or panic
#[kani::proof]
#[kani::unwind(2)]
#[kani::stub(std::fmt::format, crate::verif_kani::stubs::fmt_format)]
#[kani::stub(std::backtrace::Backtrace::capture, crate::verif_kani::stubs::backtrace_capture)]
fn c15_h7b_index_large() {
	let b = any_bbox();
	let p = any_coord2();
	kani::assume(inb(&b, &p));
	let want = (p.y - b.y_min) as u64 * (b.width() as u64) + (p.x - b.x_min) as u64;
	let i = ok(b.get_tile_index2(&p));
	assert!(i.map(|i| i as u64) == Some(want));
	let j: u32 = kani::any();
	kani::assume((j as u64) < b.count_tiles());
	let q = ok(b.get_coord2_by_index(j));
	assert!(q.is_some());
	kani::cover!(b.count_tiles() > u32::MAX as u64);
}

// H10a: flip_y / swap_xy on coordinates and boxes: involutions that commute with membership
#[kani::proof]
#[kani::unwind(2)]
#[kani::stub(u32::pow, crate::verif_kani::stubs::u32_pow)]
fn c15_h10_transform_box() {
	let b = any_bbox();
	let p = any_coord2();
	kani::assume(p.x <= b.max && p.y <= b.max);
	let p3 = TileCoord3 { x: p.x, y: p.y, z: b.level };

	// flip
	let mut fb = b.clone();
	fb.flip_y();
	let mut fp = p3;
	fp.flip_y();
	assert!(fp.x == p.x && fp.y == b.max - p.y && fp.z == b.level);
	assert_eq!(fb.contains3(&fp), b.contains3(&p3));
	assert!(valid_bbox(&fb) && fb.is_empty() == b.is_empty());
	let mut ffb = fb.clone();
	ffb.flip_y();
	assert!(ffb == b);
	let mut ffp = fp;
	ffp.flip_y();
	assert!(ffp == p3);
	if b.is_empty() {
		assert!(fb == b);
	}

	// swap
	let mut sb = b.clone();
	sb.swap_xy();
	let mut sp = p3;
	sp.swap_xy();
	assert!(sp.x == p.y && sp.y == p.x && sp.z == b.level);
	assert_eq!(sb.contains3(&sp), b.contains3(&p3));
	assert!(valid_bbox(&sb) && sb.is_empty() == b.is_empty());
	let mut ssb = sb.clone();
	ssb.swap_xy();
	assert!(ssb == b);
	if b.is_empty() {
		assert!(sb == b);
	}
	kani::cover!(!b.is_empty() && b.y_min != b.y_max && b.level == 31);
}

// add_border: clamps, never panics (borders up to u32::MAX), result is the box grown by the border
#[kani::proof]
#[kani::unwind(2)]
fn c06_add_border() {
	let b = any_bbox();
	let (l, t, r, d): (u32, u32, u32, u32) = (kani::any(), kani::any(), kani::any(), kani::any());
	let mut c = b.clone();
	c.add_border(l, t, r, d);
	if b.is_empty() {
		assert!(c == b);
	} else {
		assert!(c.x_min as u64 == (b.x_min as u64).saturating_sub(l as u64));
		assert!(c.y_min as u64 == (b.y_min as u64).saturating_sub(t as u64));
		assert!(c.x_max as u64 == (b.x_max as u64 + r as u64).min(b.max as u64));
		assert!(c.y_max as u64 == (b.y_max as u64 + d as u64).min(b.max as u64));
		assert!(valid_bbox(&c));
	}
	kani::cover!(!b.is_empty() && r > 0 && c.x_max == b.max);
}

// H6b: count_tiles = width * height, one dimension bounded so the product has no symbolic x symbolic multiplier
#[kani::proof]
#[kani::unwind(10)]
fn c15_h6_count_product() {
	let b = any_bbox();
	let tall: bool = kani::any();
	let (small, big) = if tall { (b.width(), b.height()) } else { (b.height(), b.width()) };
	kani::assume(small <= 8);
	// product by repeated addition (at most 8 summands)
	let mut want: u64 = 0;
	let mut i = 0;
	while i < small {
		want += big as u64;
		i += 1;
	}
	assert!(b.count_tiles() == want);
	kani::cover!(small == 8 && big > (1u32 << 30));
}

// H8: iter_coords / into_iter_coords enumerate the box row-major, each tile once (boxes <= 3x3)
#[kani::proof]
#[kani::unwind(12)]
#[kani::stub(std::fmt::format, crate::verif_kani::stubs::fmt_format)]
#[kani::stub(std::backtrace::Backtrace::capture, crate::verif_kani::stubs::backtrace_capture)]
fn c15_h8_iter_coords() {
	iter_coords_body::<3>();
}

#[kani::proof]
#[kani::unwind(7)]
#[kani::stub(std::fmt::format, crate::verif_kani::stubs::fmt_format)]
#[kani::stub(std::backtrace::Backtrace::capture, crate::verif_kani::stubs::backtrace_capture)]
fn c15_h8_iter_coords_2x2() {
	iter_coords_body::<2>();
}

fn iter_coords_body<const W: u32>() {
	let b = any_bbox();
	kani::assume(b.width() <= W && b.height() <= W);
	let n = b.count_tiles();
	let mut k: u64 = 0;
	let mut prev: Option<TileCoord3> = None;
	for c in b.iter_coords() {
		assert!(c.z == b.level);
		assert!(inb(&b, &TileCoord2::new(c.x, c.y)), "iter_coords yields a tile outside the box");
		let want_x = b.x_min + (k % b.width() as u64) as u32;
		let want_y = b.y_min + (k / b.width() as u64) as u32;
		assert!(c.x == want_x && c.y == want_y, "iter_coords is not row-major");
		if let Some(p) = prev {
			assert!(p.y < c.y || (p.y == c.y && p.x < c.x));
		}
		prev = Some(c);
		k += 1;
	}
	assert!(k == n, "iter_coords yields a different number of tiles than count_tiles");
	let mut k2: u64 = 0;
	for c in b.clone().into_iter_coords() {
		let want_x = b.x_min + (k2 % b.width().max(1) as u64) as u32;
		let want_y = b.y_min + (k2 / b.width().max(1) as u64) as u32;
		assert!(c.x == want_x && c.y == want_y && c.z == b.level);
		k2 += 1;
	}
	assert!(k2 == n);
	kani::cover!(n == (W * W) as u64 && b.level == 31);
	kani::cover!(n == 0 && b.x_min <= b.x_max);
}

// H7s: index <-> coordinate for boxes up to 8x8 at any position / level
#[kani::proof]
#[kani::unwind(2)]
#[kani::stub(std::fmt::format, crate::verif_kani::stubs::fmt_format)]
#[kani::stub(std::backtrace::Backtrace::capture, crate::verif_kani::stubs::backtrace_capture)]
fn c15_h7_index_small() {
	let b = any_bbox();
	kani::assume(b.width() <= 8 && b.height() <= 8);
	let p = any_coord2();
	match ok(b.get_tile_index2(&p)) {
		Some(i) => {
			assert!(inb(&b, &p));
			let want = (p.y - b.y_min) as u64 * (b.width() as u64) + (p.x - b.x_min) as u64;
			assert!(i as u64 == want, "get_tile_index2 is not row-major");
			let q = ok(b.get_coord2_by_index(i as u32)).unwrap();
			assert!(q == p, "get_coord2_by_index is not the inverse of get_tile_index2");
			let q3 = ok(b.get_coord3_by_index(i as u32)).unwrap();
			assert!(q3.x == p.x && q3.y == p.y && q3.z == b.level);
			assert!(ok(b.get_tile_index3(&q3)) == Some(i));
		}
		None => assert!(!inb(&b, &p)),
	}
	let i: u32 = kani::any();
	match ok(b.get_coord2_by_index(i)) {
		Some(q) => {
			assert!((i as u64) < b.count_tiles());
			assert!(inb(&b, &q));
			assert!(ok(b.get_tile_index2(&q)) == Some(i as usize));
		}
		None => assert!((i as u64) >= b.count_tiles()),
	}
	let z: u8 = kani::any();
	if z != b.level {
		assert!(ok(b.get_tile_index3(&TileCoord3 { x: p.x, y: p.y, z })).is_none());
	}
	kani::cover!(inb(&b, &p) && b.width() == 8 && p.y > b.y_min && p.x > b.x_min);
}

// H9: iter_bbox_grid(SIZE) is a partition of the box into SIZE-aligned cells.
// SIZE concrete per instance (division by a constant); box position/level symbolic; the box spans at most 2 cells per axis.
fn grid_partition<const SIZE: u32, const WX: u32, const WY: u32>() {
	let b = any_bbox();
	kani::assume(b.width() <= WX && b.height() <= WY);
	let p = any_coord2();
	let mut hits = 0u32;
	let mut cells = 0u32;
	for cell in b.iter_bbox_grid(SIZE) {
		cells += 1;
		assert!(!cell.is_empty(), "grid cell is empty");
		assert!(cell.level == b.level && valid_bbox(&cell));
		assert!(cell.x_min >= b.x_min && cell.x_max <= b.x_max && cell.y_min >= b.y_min && cell.y_max <= b.y_max, "grid cell leaves the box");
		assert!(cell.x_min / SIZE == cell.x_max / SIZE && cell.y_min / SIZE == cell.y_max / SIZE, "grid cell crosses an aligned boundary");
		if inb(&cell, &p) {
			hits += 1;
		}
	}
	if inb(&b, &p) {
		assert!(hits == 1, "a tile of the box is not in exactly one grid cell");
	} else {
		assert!(hits == 0, "a tile outside the box is in a grid cell");
	}
	if b.is_empty() {
		assert!(cells == 0, "empty box yields grid cells");
	}
	kani::cover!(cells == 2);
	kani::cover!(b.is_empty() && b.x_min <= b.x_max);
}

macro_rules! grid {
	($name:ident, $size:expr, $wx:expr, $wy:expr, $unw:expr) => {
		#[kani::proof]
		#[kani::unwind($unw)]
		#[kani::stub(std::fmt::format, crate::verif_kani::stubs::fmt_format)]
		#[kani::stub(std::backtrace::Backtrace::capture, crate::verif_kani::stubs::backtrace_capture)]
		#[kani::stub(u32::pow, crate::verif_kani::stubs::u32_pow)]
		fn $name() {
			grid_partition::<$size, $wx, $wy>();
		}
	};
}
grid!(c15_h9_grid_s1_2x1, 1, 2, 1, 4);
grid!(c15_h9_grid_s1_1x2, 1, 1, 2, 4);
grid!(c15_h9_grid_s2_2x1, 2, 2, 1, 4);
grid!(c15_h9_grid_s2_1x2, 2, 1, 2, 4);
grid!(c15_h9_grid_s256_256x1, 256, 256, 1, 4);
grid!(c15_h9_grid_s256_1x256, 256, 1, 256, 4);
grid!(c15_h9_grid_s2_2x2, 2, 2, 2, 6);

// H9z: size 0 yields nothing
#[kani::proof]
#[kani::unwind(3)]
fn c15_h9_grid_zero() {
	let b = any_bbox();
	let mut n = 0;
	for _ in b.iter_bbox_grid(0) {
		n += 1;
	}
	assert!(n == 0);
	kani::cover!(!b.is_empty());
}

