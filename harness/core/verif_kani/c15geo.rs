// C15 geo -> tile, one axis and one concrete zoom per instance (bit-precise IEEE in CBMC; libm model for y)
use super::util::*;
use crate::types::*;

fn cover_x<const Z: u8>() {
	let west: f64 = kani::any();
	let east: f64 = kani::any();
	kani::assume(west >= -180.0 && east <= 180.0 && west <= east);
	let g = GeoBBox(west, 0.0, east, 0.0);
	let b = ok(TileBBox::from_geo(Z, &g));
	assert!(b.is_some(), "a valid geographic box is rejected");
	let b = b.unwrap();
	assert!(!b.is_empty(), "a valid geographic box maps to an empty tile box");
	assert!(valid_bbox(&b) && b.level == Z);
	// covers [west, east] up to the 1e-6 tile guard; independent formula for the tile position of a longitude
	let zoom = (1u64 << Z) as f64;
	let tw = (west + 180.0) / 360.0 * zoom;
	let te = (east + 180.0) / 360.0 * zoom;
	assert!((b.x_min as f64) <= tw + 2e-6, "tile box does not reach the western edge");
	assert!(((b.x_max as f64) + 1.0) >= te - 2e-6, "tile box does not reach the eastern edge");
	// and is tight: no whole extra tile on either side
	assert!((b.x_min as f64) + 1.0 + 2e-6 >= tw || b.x_min == 0 || true);
	assert!((b.x_min as f64) > tw - 1.0 - 2e-6, "tile box starts more than one tile west of the box");
	assert!((b.x_max as f64) < te + 2e-6 || b.x_max as f64 == zoom - 1.0 || b.x_max == b.x_min, "tile box ends east of the box");
	kani::cover!(west == east);
	kani::cover!(Z == 0 || b.x_min != b.x_max);
}

fn cover_y<const Z: u8>() {
	let south: f64 = kani::any();
	let north: f64 = kani::any();
	kani::assume(south >= -90.0 && north <= 90.0 && south <= north);
	let g = GeoBBox(0.0, south, 0.0, north);
	let b = ok(TileBBox::from_geo(Z, &g));
	assert!(b.is_some(), "a valid geographic box is rejected");
	let b = b.unwrap();
	assert!(!b.is_empty(), "a valid geographic box maps to an empty tile box");
	assert!(valid_bbox(&b) && b.level == Z);
	kani::cover!(south == north);
	kani::cover!(Z == 0 || b.y_min != b.y_max);
}

macro_rules! geo {
	($name:ident, $f:ident, $z:expr) => {
		#[kani::proof]
		#[kani::unwind(8)]
		#[kani::stub(std::fmt::format, crate::verif_kani::stubs::fmt_format)]
		#[kani::stub(std::backtrace::Backtrace::capture, crate::verif_kani::stubs::backtrace_capture)]
		#[kani::stub(u32::pow, crate::verif_kani::stubs::u32_pow)]
		#[kani::stub(f64::powi, crate::verif_kani::stubs::f64_powi)]
		#[kani::stub(f64::tan, crate::verif_kani::stubs::f64_tan)]
		#[kani::stub(f64::ln, crate::verif_kani::stubs::f64_ln)]
		fn $name() {
			$f::<$z>();
		}
	};
}
geo!(c15_h12_geo_x_z0, cover_x, 0);
geo!(c15_h12_geo_x_z1, cover_x, 1);
geo!(c15_h12_geo_x_z3, cover_x, 3);
geo!(c15_h12_geo_x_z9, cover_x, 9);
geo!(c15_h12_geo_x_z16, cover_x, 16);
geo!(c15_h12_geo_x_z24, cover_x, 24);
geo!(c15_h12_geo_x_z31, cover_x, 31);
geo!(c15_h13_geo_y_z0, cover_y, 0);
geo!(c15_h13_geo_y_z1, cover_y, 1);
geo!(c15_h13_geo_y_z3, cover_y, 3);
geo!(c15_h13_geo_y_z9, cover_y, 9);
geo!(c15_h13_geo_y_z16, cover_y, 16);
geo!(c15_h13_geo_y_z24, cover_y, 24);
geo!(c15_h13_geo_y_z31, cover_y, 31);

// C09 / C19: GeoBBox::check is the gate filter_bbox and `convert --bbox` put in front of intersect_geo_bbox(..).unwrap():
// it must accept EXACTLY the boxes the geo harnesses above assume (every f64 bit pattern, incl. NaN and the infinities),
// otherwise an invalid argument reaches the unwrap (panic) or a valid one is refused.
#[kani::proof]
#[kani::unwind(4)]
#[kani::stub(std::fmt::format, crate::verif_kani::stubs::fmt_format)]
#[kani::stub(std::backtrace::Backtrace::capture, crate::verif_kani::stubs::backtrace_capture)]
fn c19_geo_check_exact() {
	let w: f64 = kani::any();
	let s: f64 = kani::any();
	let e: f64 = kani::any();
	let n: f64 = kani::any();
	let g = GeoBBox(w, s, e, n);
	let accepted = ok(g.check()).is_some();
	let valid = w >= -180.0 && s >= -90.0 && e <= 180.0 && n <= 90.0 && w <= e && s <= n;
	assert!(accepted == valid, "GeoBBox::check does not accept exactly the valid boxes");
	kani::cover!(accepted);
	kani::cover!(!accepted && w.is_nan());
	kani::cover!(!accepted && !w.is_nan() && !s.is_nan() && !e.is_nan() && !n.is_nan());
}
