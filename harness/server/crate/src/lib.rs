#![allow(dead_code, unused_imports, clippy::all)]
pub mod tools {
	pub mod server {
		#[path = "../../../../versatiles/src/tools/server/sources/mod.rs"]
		pub mod sources;
		#[path = "../../../../versatiles/src/tools/server/utils/mod.rs"]
		pub mod utils;
		pub use utils::Url;
	}
}

#[cfg(kani)]
pub mod verif_kani;
