// Byte-level reference models of the std::path / std::fs functions Folder::get_data composes.
// Executing the real `Components` state machine on symbolic bytes is out of reach for CBMC, so the documented
// semantics are written out here (validated natively against std on all short strings, see thorough tier):
//   join/push : an absolute argument replaces the base, otherwise base + '/' + argument
//   starts_with: compares whole components; repeated separators and '.' components are ignored; '..' is ordinary
//   File::open : the I/O boundary. The kernel resolves '..' (symlinks outside the claim); the model resolves the
//                path lexically, asserts the C07 obligation and ends the execution there.
use std::ffi::{OsStr, OsString};
use std::os::unix::ffi::{OsStrExt, OsStringExt};
use std::path::{Path, PathBuf};

pub const ROOT: &[u8] = b"/r";

/// marker: true under the model (stubbed), false when the harness is replayed natively (concrete playback)
pub fn is_model() -> bool {
	false
}
pub fn is_model_stub() -> bool {
	true
}

fn bytes_of<P: AsRef<Path>>(p: &P) -> Vec<u8> {
	let b = p.as_ref().as_os_str().as_bytes();
	let mut v = Vec::with_capacity(b.len() + 16);
	let mut i = 0;
	while i < b.len() {
		v.push(b[i]);
		i += 1;
	}
	v
}

fn to_pathbuf(v: Vec<u8>) -> PathBuf {
	PathBuf::from(OsString::from_vec(v))
}

pub fn join_bytes(base: &[u8], arg: &[u8]) -> Vec<u8> {
	let mut v = Vec::with_capacity(base.len() + arg.len() + 1);
	if !arg.is_empty() && arg[0] == b'/' {
		let mut i = 0;
		while i < arg.len() {
			v.push(arg[i]);
			i += 1;
		}
		return v;
	}
	let mut i = 0;
	while i < base.len() {
		v.push(base[i]);
		i += 1;
	}
	if !base.is_empty() && base[base.len() - 1] != b'/' {
		v.push(b'/');
	}
	i = 0;
	while i < arg.len() {
		v.push(arg[i]);
		i += 1;
	}
	v
}

/// Path::join
pub fn path_join<P: AsRef<Path>>(this: &Path, p: P) -> PathBuf {
	to_pathbuf(join_bytes(this.as_os_str().as_bytes(), p.as_ref().as_os_str().as_bytes()))
}

/// PathBuf::push
pub fn pathbuf_push<P: AsRef<Path>>(this: &mut PathBuf, p: P) {
	let v = join_bytes(this.as_os_str().as_bytes(), p.as_ref().as_os_str().as_bytes());
	*this = to_pathbuf(v);
}

/// next component of `b` starting at `*at` (skipping separators and '.' components); None at the end
fn next_component(b: &[u8], at: &mut usize) -> Option<(usize, usize)> {
	loop {
		while *at < b.len() && b[*at] == b'/' {
			*at += 1;
		}
		if *at >= b.len() {
			return None;
		}
		let start = *at;
		while *at < b.len() && b[*at] != b'/' {
			*at += 1;
		}
		if *at - start == 1 && b[start] == b'.' {
			continue;
		}
		return Some((start, *at));
	}
}

pub fn starts_with_bytes(p: &[u8], base: &[u8]) -> bool {
	let p_abs = !p.is_empty() && p[0] == b'/';
	let b_abs = !base.is_empty() && base[0] == b'/';
	if p_abs != b_abs {
		return false;
	}
	let (mut i, mut j) = (0usize, 0usize);
	loop {
		let cb = next_component(base, &mut j);
		match cb {
			None => return true,
			Some((bs, be)) => match next_component(p, &mut i) {
				None => return false,
				Some((ps, pe)) => {
					if pe - ps != be - bs {
						return false;
					}
					let mut k = 0;
					while k < pe - ps {
						if p[ps + k] != base[bs + k] {
							return false;
						}
						k += 1;
					}
				}
			},
		}
	}
}

/// Path::starts_with
pub fn path_starts_with<P: AsRef<Path>>(this: &Path, base: P) -> bool {
	starts_with_bytes(this.as_os_str().as_bytes(), base.as_ref().as_os_str().as_bytes())
}

/// Path::is_dir: false (the directory-index branch only appends the constant component "index.html",
/// which cannot introduce a parent-directory step; it is outside the claim)
pub fn path_is_dir(_this: &Path) -> bool {
	false
}

/// lexical resolution as the kernel does it in the absence of symlinks: is the resolved path below ROOT ("/r")?
pub fn resolves_inside_root(p: &[u8]) -> bool {
	if p.is_empty() || p[0] != b'/' {
		return false; // relative to the process' cwd: not under the configured root
	}
	let mut at = 0usize;
	let mut depth: usize = 0; // components on the resolution stack
	let mut first_is_root = false; // the bottom component is "r"
	loop {
		match next_component(p, &mut at) {
			None => break,
			Some((s, e)) => {
				if e - s == 2 && p[s] == b'.' && p[s + 1] == b'.' {
					if depth > 0 {
						depth -= 1;
						if depth == 0 {
							first_is_root = false;
						}
					}
				} else {
					if depth == 0 {
						first_is_root = e - s == 1 && p[s] == b'r';
					}
					depth += 1;
				}
			}
		}
	}
	depth >= 1 && first_is_root
}

/// std::fs::File::open — the I/O boundary
pub fn file_open<P: AsRef<Path>>(path: P) -> std::io::Result<std::fs::File> {
	let b = path.as_ref().as_os_str().as_bytes();
	assert!(resolves_inside_root(b), "File::open on a path that resolves outside the configured root");
	// end this execution: no io::Error value may ever exist (its drop glue cannot be unwound by CBMC)
	kani::assume(false);
	unreachable!()
}

/// utils::guess_mime: MIME types are not part of C07
pub fn guess_mime(_p: &Path) -> String {
	String::new()
}

/// byte-level model of Url::has_parent_segment (some '/'-separated segment equals "..");
/// shown equal to the real helper on all short strings by the c07_url_parent_segment_* harnesses
pub fn has_parent_segment_bytes(b: &[u8]) -> bool {
	let mut i = 0usize;
	loop {
		// segment [i, j)
		let mut j = i;
		while j < b.len() && b[j] != b'/' {
			j += 1;
		}
		if j - i == 2 && b[i] == b'.' && b[i + 1] == b'.' {
			return true;
		}
		if j >= b.len() {
			return false;
		}
		i = j + 1;
	}
}

/// stands in for Url::has_parent_segment inside the Folder::get_data harnesses
pub fn url_has_parent_segment(this: &crate::tools::server::Url) -> bool {
	has_parent_segment_bytes(this.str.as_bytes())
}
