#![allow(unused_imports, dead_code, clippy::all)]
pub mod pathmodel;
pub mod stubs;
