// ---- in-file Kani harnesses (overlay): tile endpoint kernel (C05) ----
#[cfg(kani)]
mod kani_harness {
	use super::*;
	use crate::verif_kani::stubs::block_on;
	use async_trait::async_trait;
	use versatiles_core::tilejson::TileJSON;
	use versatiles_core::types::{TileBBox, TileBBoxPyramid, TileFormat, TileStream, TilesReaderParameters};

	static mut LOOKUPS: u32 = 0;
	static mut LAST: Option<TileCoord3> = None;

	/// source that holds exactly one tile (symbolic coordinate) with a 1-byte payload
	#[derive(Debug)]
	struct OneTile {
		parameters: TilesReaderParameters,
		tilejson: TileJSON,
		at: TileCoord3,
		payload: u8,
	}

	#[async_trait]
	impl TilesReaderTrait for OneTile {
		fn get_source_name(&self) -> &str {
			"one"
		}
		fn get_container_name(&self) -> &str {
			"one"
		}
		fn get_parameters(&self) -> &TilesReaderParameters {
			&self.parameters
		}
		fn override_compression(&mut self, _c: TileCompression) {}
		fn get_tilejson(&self) -> &TileJSON {
			&self.tilejson
		}
		async fn get_tile_data(&self, coord: &TileCoord3) -> Result<Option<Blob>> {
			unsafe {
				LOOKUPS += 1;
				LAST = Some(*coord);
			}
			if *coord == self.at {
				Ok(Some(Blob::from(vec![self.payload])))
			} else {
				Ok(None)
			}
		}
		async fn get_bbox_tile_stream(&self, _bbox: TileBBox) -> TileStream {
			TileStream::new_empty()
		}
	}

	const ALPHABET: [u8; 6] = [b'/', b'0', b'1', b'7', b'.', b'p'];

	/// independent parse of "<z>/<x>/<y>[.ext]" over the alphabet (numbers have at most 5 digits here: no overflow of u32; z may exceed u8)
	fn parse_num(b: &[u8], s: usize, e: usize, prefix_ok: bool) -> Option<u64> {
		let mut v: u64 = 0;
		let mut i = s;
		let mut digits = 0;
		while i < e {
			let c = b[i];
			if c >= b'0' && c <= b'9' {
				v = v * 10 + (c - b'0') as u64;
				digits += 1;
			} else if prefix_ok {
				break;
			} else {
				return None;
			}
			i += 1;
		}
		if digits == 0 {
			None
		} else {
			Some(v)
		}
	}

	fn tile_request<const N: usize>() {
		let mut v: Vec<u8> = Vec::with_capacity(N + 1);
		v.push(b'/');
		let mut i = 0;
		while i < N {
			let k: usize = kani::any();
			kani::assume(k < ALPHABET.len());
			v.push(ALPHABET[k]);
			i += 1;
		}
		let req = unsafe { String::from_utf8_unchecked(v.clone()) };
		let at = TileCoord3 { x: kani::any(), y: kani::any(), z: kani::any() };
		kani::assume(at.z <= 31);
		let payload: u8 = kani::any();
		let reader = OneTile {
			parameters: TilesReaderParameters::new(TileFormat::PBF, TileCompression::Uncompressed, TileBBoxPyramid::new_empty()),
			tilejson: TileJSON::default(),
			at,
			payload,
		};
		let src = TileSource {
			prefix: Url { str: String::from("/tiles/t/") },
			id: String::from("t"),
			reader: Arc::new(Mutex::new(Box::new(reader))),
			tile_mime: String::from("application/x-protobuf"),
			compression: TileCompression::Uncompressed,
		};
		let url = Url { str: req };
		// only the tile branch is the subject: requests with fewer than 3 segments go to the metadata branch
		let mut segs = 0;
		let mut starts = [0usize; 3];
		let mut ends = [0usize; 3];
		let mut j = 0;
		while j < v.len() {
			while j < v.len() && v[j] == b'/' {
				j += 1;
			}
			if j >= v.len() {
				break;
			}
			let s = j;
			while j < v.len() && v[j] != b'/' {
				j += 1;
			}
			if segs < 3 {
				starts[segs] = s;
				ends[segs] = j;
			}
			segs += 1;
		}
		let r = block_on(src.get_data(&url, &TargetCompression::from_none()));
		let outcome: u8 = match &r {
			Ok(Some(_)) => 2,
			Ok(None) => 1,
			Err(_) => 0,
		};
		if segs >= 3 {
			let z = parse_num(&v, starts[0], ends[0], false);
			let x = parse_num(&v, starts[1], ends[1], false);
			let y = parse_num(&v, starts[2], ends[2], true);
			match (z, x, y) {
				(Some(z), Some(x), Some(y)) if z <= 31 => {
					let c = TileCoord3 { x: x as u32, y: y as u32, z: z as u8 };
					if c == at {
						assert!(outcome == 2, "the stored tile is not served");
						if let Ok(Some(resp)) = &r {
							assert!(resp.blob.as_slice().len() == 1 && resp.blob.as_slice()[0] == payload, "served body differs from the stored tile");
							assert!(resp.compression == TileCompression::Uncompressed);
						}
					} else {
						assert!(outcome == 1, "a coordinate without a tile must give 'not found'");
					}
				}
				_ => assert!(outcome == 0, "an unparsable coordinate must be reported as an error (400), not served or 404"),
			}
		}
		kani::cover!(outcome == 2);
		kani::cover!(outcome == 1);
		kani::cover!(outcome == 0);
		kani::cover!(segs == 0);
		std::mem::forget(r);
		std::mem::forget(src);
	}

	macro_rules! inst {
		($name:ident, $n:expr, $unw:expr) => {
			#[kani::proof]
			#[kani::unwind($unw)]
			#[kani::stub(std::fmt::format, crate::verif_kani::stubs::fmt_format)]
			#[kani::stub(std::backtrace::Backtrace::capture, crate::verif_kani::stubs::backtrace_capture)]
			fn $name() {
				tile_request::<$n>();
			}
		};
	}
	inst!(c05_h3_tile_request_1, 1, 6);
	inst!(c05_h3_tile_request_2, 2, 7);
	inst!(c05_h3_tile_request_5, 5, 10);
	inst!(c05_h3_tile_request_6, 6, 11);
}
