// ---- in-file Kani harnesses (overlay): Url helpers (C07) ----
#[cfg(kani)]
mod kani_harness {
	use super::*;

	const ALPHABET: [u8; 7] = [b'/', b'.', b'a', b'%', b'2', b'e', b'\\'];

	fn any_url<const N: usize>() -> (Url, Vec<u8>) {
		let mut v: Vec<u8> = Vec::with_capacity(N + 1);
		v.push(b'/');
		let mut i = 0;
		while i < N {
			let k: usize = kani::any();
			kani::assume(k < ALPHABET.len());
			v.push(ALPHABET[k]);
			i += 1;
		}
		(Url { str: unsafe { String::from_utf8_unchecked(v.clone()) } }, v)
	}

	// the byte-level model used by the Folder::get_data harnesses is exactly what the real helper computes
	fn parent_segment_model<const N: usize>() {
		let (url, bytes) = any_url::<N>();
		let real = url.has_parent_segment();
		let model = crate::verif_kani::pathmodel::has_parent_segment_bytes(&bytes);
		assert!(real == model, "Url::has_parent_segment differs from its byte-level model");
		kani::cover!(real);
		kani::cover!(!real);
		std::mem::forget(url);
	}

	macro_rules! inst {
		($name:ident, $f:ident, $n:expr, $unw:expr) => {
			#[kani::proof]
			#[kani::unwind($unw)]
			#[kani::stub(std::fmt::format, crate::verif_kani::stubs::fmt_format)]
			fn $name() {
				$f::<$n>();
			}
		};
	}
	inst!(c07_url_parent_segment_2, parent_segment_model, 2, 6);
	inst!(c07_url_parent_segment_3, parent_segment_model, 3, 7);
	inst!(c07_url_parent_segment_4, parent_segment_model, 4, 8);
	inst!(c07_url_parent_segment_5, parent_segment_model, 5, 9);
	inst!(c07_url_parent_segment_6, parent_segment_model, 6, 10);
}
