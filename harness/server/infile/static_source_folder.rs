// ---- in-file Kani harnesses (overlay): static folder source never leaves its root (C07) ----
#[cfg(kani)]
mod kani_harness {
	use super::*;
	use crate::verif_kani::pathmodel::*;

	const ALPHABET: [u8; 7] = [b'/', b'.', b'a', b'%', b'2', b'e', b'\\'];

	/// request = '/' + ALPHABET[C0] + (N - 1) symbolic bytes over the alphabet. The first byte is concrete per instance:
	/// it decides whether the joined path is absolute, i.e. the *length* of every later buffer.
	fn request<const N: usize, const C0: usize>() -> String {
		let mut v: Vec<u8> = Vec::with_capacity(N + 1);
		v.push(b'/');
		v.push(ALPHABET[C0]);
		let mut i = 1;
		while i < N {
			let k: usize = kani::any();
			kani::assume(k < ALPHABET.len());
			v.push(ALPHABET[k]);
			i += 1;
		}
		unsafe { String::from_utf8_unchecked(v) } // ASCII alphabet
	}

	/// native branch (concrete playback only): a real root directory; where the kernel would resolve the request
	/// outside of it, a canary file is planted first; the handler must not hand it out.
	fn native_check(req: &str) {
		use std::path::Component;
		let base = std::env::temp_dir().join(format!("verif-c07-{}", std::process::id()));
		let _ = std::fs::remove_dir_all(&base);
		let root = base.join("d1").join("d2").join("d3").join("r");
		std::fs::create_dir_all(&root).unwrap();
		std::fs::write(root.join("a"), b"inside").unwrap();
		// lexical resolution (no symlinks in this tree) of the path the handler composes
		let joined = root.join(&req[1..]);
		let mut stack: Vec<std::ffi::OsString> = Vec::new();
		for c in joined.components() {
			match c {
				Component::ParentDir => {
					stack.pop();
				}
				Component::Normal(x) => stack.push(x.to_os_string()),
				_ => {}
			}
		}
		let mut resolved = PathBuf::from("/");
		for c in &stack {
			resolved.push(c);
		}
		const CANARY: &[u8] = b"CANARY-OUTSIDE-ROOT";
		if !resolved.starts_with(&root) && resolved.starts_with(&base) {
			if resolved.is_dir() {
				std::fs::write(resolved.join("index.html"), CANARY).unwrap();
			} else {
				std::fs::create_dir_all(resolved.parent().unwrap()).unwrap();
				std::fs::write(&resolved, CANARY).unwrap();
			}
		}
		let folder = Folder::from(&root).unwrap();
		let url = Url::new(req);
		let resp = folder.get_data(&url, &TargetCompression::from_none());
		let leaked = match &resp {
			Some(r) => r.blob.as_slice() == CANARY,
			None => false,
		};
		let _ = std::fs::remove_dir_all(&base);
		assert!(!leaked, "static handler returned a file from outside the configured root");
	}

	fn folder_get_data<const N: usize, const C0: usize>() {
		let req = request::<N, C0>();
		if !is_model() {
			native_check(&req);
			return;
		}
		let folder = Folder { folder: PathBuf::from("/r"), name: String::new() };
		let url = Url::new(&req);
		let r = folder.get_data(&url, &TargetCompression::from_none());
		std::mem::forget(r);
		std::mem::forget(folder);
	}

	macro_rules! inst {
		($name:ident, $n:expr, $c0:expr, $unw:expr) => {
			#[kani::proof]
			#[kani::unwind($unw)]
			#[kani::stub(std::fmt::format, crate::verif_kani::stubs::fmt_format)]
			#[kani::stub(std::backtrace::Backtrace::capture, crate::verif_kani::stubs::backtrace_capture)]
			#[kani::stub(crate::verif_kani::pathmodel::is_model, crate::verif_kani::pathmodel::is_model_stub)]
			#[kani::stub(std::path::Path::join, crate::verif_kani::pathmodel::path_join)]
			#[kani::stub(std::path::PathBuf::push, crate::verif_kani::pathmodel::pathbuf_push)]
			#[kani::stub(std::path::Path::starts_with, crate::verif_kani::pathmodel::path_starts_with)]
			#[kani::stub(std::path::Path::is_dir, crate::verif_kani::pathmodel::path_is_dir)]
			#[kani::stub(std::fs::File::open, crate::verif_kani::pathmodel::file_open)]
			#[kani::stub(crate::tools::server::utils::guess_mime, crate::verif_kani::pathmodel::guess_mime)]
			#[kani::stub(crate::tools::server::utils::Url::has_parent_segment, crate::verif_kani::pathmodel::url_has_parent_segment)]
			fn $name() {
				folder_get_data::<$n, $c0>();
			}
		};
	}
	macro_rules! inst7 {
		($n:expr, $unw:expr, $a:ident, $b:ident, $c:ident, $d:ident, $e:ident, $f:ident, $g:ident) => {
			inst!($a, $n, 0, $unw);
			inst!($b, $n, 1, $unw);
			inst!($c, $n, 2, $unw);
			inst!($d, $n, 3, $unw);
			inst!($e, $n, 4, $unw);
			inst!($f, $n, 5, $unw);
			inst!($g, $n, 6, $unw);
		};
	}
	inst7!(2, 7, c07_folder_2_c0, c07_folder_2_c1, c07_folder_2_c2, c07_folder_2_c3, c07_folder_2_c4, c07_folder_2_c5, c07_folder_2_c6);
	inst7!(3, 8, c07_folder_3_c0, c07_folder_3_c1, c07_folder_3_c2, c07_folder_3_c3, c07_folder_3_c4, c07_folder_3_c5, c07_folder_3_c6);
	inst7!(4, 9, c07_folder_4_c0, c07_folder_4_c1, c07_folder_4_c2, c07_folder_4_c3, c07_folder_4_c4, c07_folder_4_c5, c07_folder_4_c6);
	inst7!(5, 10, c07_folder_5_c0, c07_folder_5_c1, c07_folder_5_c2, c07_folder_5_c3, c07_folder_5_c4, c07_folder_5_c5, c07_folder_5_c6);
	inst7!(6, 11, c07_folder_6_c0, c07_folder_6_c1, c07_folder_6_c2, c07_folder_6_c3, c07_folder_6_c4, c07_folder_6_c5, c07_folder_6_c6);
	inst7!(7, 12, c07_folder_7_c0, c07_folder_7_c1, c07_folder_7_c2, c07_folder_7_c3, c07_folder_7_c4, c07_folder_7_c5, c07_folder_7_c6);
	inst7!(8, 13, c07_folder_8_c0, c07_folder_8_c1, c07_folder_8_c2, c07_folder_8_c3, c07_folder_8_c4, c07_folder_8_c5, c07_folder_8_c6);
	inst7!(9, 14, c07_folder_9_c0, c07_folder_9_c1, c07_folder_9_c2, c07_folder_9_c3, c07_folder_9_c4, c07_folder_9_c5, c07_folder_9_c6);

	// vacuity witness: some request does reach File::open inside the root
	#[kani::proof]
	#[kani::unwind(22)]
	#[kani::stub(std::fmt::format, crate::verif_kani::stubs::fmt_format)]
	#[kani::stub(std::path::Path::join, crate::verif_kani::pathmodel::path_join)]
	#[kani::stub(std::path::Path::starts_with, crate::verif_kani::pathmodel::path_starts_with)]
	fn c07_model_sanity() {
		let root = Path::new("/r");
		assert!(root.join("a").starts_with(root));
		assert!(root.join("a/..").starts_with(root)); // lexical: the guard of the repository is not enough on its own
		assert!(!root.join("/a").starts_with(root));
		assert!(!Path::new("/ra").starts_with(root));
		assert!(resolves_inside_root(b"/r/a"));
		assert!(resolves_inside_root(b"/r//./a"));
		assert!(!resolves_inside_root(b"/r/../a"));
		assert!(!resolves_inside_root(b"/r/a/../../a"));
		assert!(!resolves_inside_root(b"/a"));
		assert!(resolves_inside_root(b"/r/a/../e"));
		kani::cover!(true);
	}
}
