#![allow(dead_code, unused_imports, clippy::all)]
pub mod container {
	use versatiles_core::types::TilesReaderTrait;

	#[path = "../../../versatiles_container/src/container/tile_converter.rs"]
	pub mod tile_converter;
	#[path = "../../../versatiles_container/src/container/converter.rs"]
	pub mod converter;

	/// stands in for getters::write_to_filename (all writers); only `convert_tiles_container` calls it, which no harness reaches
	pub async fn write_to_filename(_reader: &mut dyn TilesReaderTrait, _filename: &str) -> anyhow::Result<()> {
		unreachable!("writers are outside the harness crate")
	}
}
pub use container::converter::*;
pub use container::tile_converter;

#[cfg(kani)]
pub mod verif_kani;
