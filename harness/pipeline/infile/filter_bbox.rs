// ---- in-file Kani harnesses (overlay): filter_bbox passes exactly the tiles inside the tile boxes the geographic box maps to (C09) ----
#[cfg(kani)]
mod kani_harness {
	use super::*;
	use crate::verif_kani::stubs::block_on;
	use crate::verif_kani::util::*;

	struct Setup {
		op: Operation,
		src_box: TileBBox,
		flt_box: TileBBox,
		level: u8,
	}

	fn setup() -> Setup {
		let level = any_level();
		let (pyr, src_box) = one_level_pyramid(level);
		let source = EchoOp::new(1, pyr, TileCompression::Uncompressed);
		// `build` intersects the source coverage with the tile boxes the geographic box maps to (TileBBox::from_geo per
		// level: C15 geo harnesses). Here the per-level tile box of the filter is an arbitrary valid box.
		let (flt, flt_box) = one_level_pyramid(level);
		let mut parameters = source.get_parameters().clone();
		parameters.bbox_pyramid.intersect(&flt);
		let op = Operation { parameters, source: Box::new(source), tilejson: TileJSON::default() };
		Setup { op, src_box, flt_box, level }
	}

	fn expected(s: &Setup, c: &TileCoord3) -> bool {
		c.z == s.level && inb(&s.src_box, c.x, c.y) && inb(&s.flt_box, c.x, c.y)
	}

	#[kani::proof]
	#[kani::unwind(3)]
	#[kani::stub(std::fmt::format, crate::verif_kani::stubs::fmt_format)]
	#[kani::stub(std::backtrace::Backtrace::capture, crate::verif_kani::stubs::backtrace_capture)]
	#[kani::stub(u32::pow, crate::verif_kani::stubs::u32_pow)]
	fn c09_filter_bbox_lookup() {
		let s = setup();
		let c = TileCoord3 { x: kani::any(), y: kani::any(), z: any_level() };
		let got = ok(block_on(s.op.get_tile_data(&c)));
		assert!(got.is_some(), "lookup failed");
		let got = got.unwrap();
		if expected(&s, &c) {
			assert!(got.is_some(), "a tile inside the filter box is filtered out");
			assert!(payload_of(got.as_ref().unwrap()) == Some((1, c)), "the tile was changed by the filter");
		} else {
			assert!(got.is_none(), "a tile outside the filter box (or without a source tile) passes the filter");
		}
		// advertised coverage = source coverage restricted to the range
		assert!(s.op.get_parameters().bbox_pyramid.contains_coord(&c) == expected(&s, &c), "advertised coverage differs from the filtered set");
		kani::cover!(got.is_some());
		kani::cover!(got.is_none() && c.z == s.level && inb(&s.src_box, c.x, c.y), "filtered out by the box");
		kani::cover!(!s.flt_box.is_empty() && !s.src_box.is_empty());
		std::mem::forget(got);
		std::mem::forget(s);
	}

	#[kani::proof]
	#[kani::unwind(3)]
	#[kani::stub(std::fmt::format, crate::verif_kani::stubs::fmt_format)]
	#[kani::stub(std::backtrace::Backtrace::capture, crate::verif_kani::stubs::backtrace_capture)]
	#[kani::stub(u32::pow, crate::verif_kani::stubs::u32_pow)]
	fn c09_filter_bbox_stream() {
		let s = setup();
		let q = any_bbox_at(any_level());
		kani::assume(q.width() <= 2 && q.height() <= 1);
		let items = block_on(block_on(s.op.get_tile_stream(q.clone())).collect());
		let mut i = 0;
		while i < items.len() {
			let (c, blob) = &items[i];
			assert!(c.z == q.level && inb(&q, c.x, c.y), "stream delivers a tile outside the requested box");
			assert!(expected(&s, c), "stream delivers a tile outside the filter");
			assert!(payload_of(blob) == Some((1, *c)), "stream changed a tile");
			i += 1;
		}
		let c = TileCoord3 { x: kani::any(), y: kani::any(), z: q.level };
		if inb(&q, c.x, c.y) && expected(&s, &c) {
			let mut found = 0;
			let mut k = 0;
			while k < items.len() {
				if items[k].0 == c {
					found += 1;
				}
				k += 1;
			}
			assert!(found == 1, "stream does not deliver exactly once a tile the lookup returns");
		}
		kani::cover!(items.len() == 2);
		kani::cover!(items.len() == 0 && !q.is_empty() && q.level == s.level);
		std::mem::forget(items);
		std::mem::forget(s);
	}
}
