// ---- in-file Kani harnesses (overlay): filter_zoom passes exactly the tiles inside the zoom range (C09) ----
#[cfg(kani)]
mod kani_harness {
	use super::*;
	use crate::verif_kani::stubs::block_on;
	use crate::verif_kani::util::*;

	struct Setup {
		op: Operation,
		src_box: TileBBox,
		level: u8,
		min: Option<u8>,
		max: Option<u8>,
	}

	fn setup() -> Setup {
		let level = any_level();
		let (pyr, src_box) = one_level_pyramid(level);
		let source = EchoOp::new(1, pyr, TileCompression::Uncompressed);
		let min: Option<u8> = if kani::any() { Some(kani::any()) } else { None };
		let max: Option<u8> = if kani::any() { Some(kani::any()) } else { None };
		// what `build` computes from the arguments (the argument parsing / factory glue of build is outside the claim)
		let mut parameters = source.get_parameters().clone();
		if let Some(m) = min {
			parameters.bbox_pyramid.set_zoom_min(m);
		}
		if let Some(m) = max {
			parameters.bbox_pyramid.set_zoom_max(m);
		}
		let op = Operation { parameters, source: Box::new(source), tilejson: TileJSON::default() };
		Setup { op, src_box, level, min, max }
	}

	fn expected(s: &Setup, c: &TileCoord3) -> bool {
		c.z == s.level && inb(&s.src_box, c.x, c.y) && s.min.map_or(true, |m| c.z >= m) && s.max.map_or(true, |m| c.z <= m)
	}

	#[kani::proof]
	#[kani::unwind(2)]
	#[kani::stub(std::fmt::format, crate::verif_kani::stubs::fmt_format)]
	#[kani::stub(std::backtrace::Backtrace::capture, crate::verif_kani::stubs::backtrace_capture)]
	#[kani::stub(u32::pow, crate::verif_kani::stubs::u32_pow)]
	fn c09_filter_zoom_lookup() {
		let s = setup();
		let c = TileCoord3 { x: kani::any(), y: kani::any(), z: any_level() };
		let got = ok(block_on(s.op.get_tile_data(&c)));
		assert!(got.is_some(), "lookup failed");
		let got = got.unwrap();
		if expected(&s, &c) {
			assert!(got.is_some(), "a tile inside the zoom range is filtered out");
			assert!(payload_of(got.as_ref().unwrap()) == Some((1, c)), "the tile was changed by the filter");
		} else {
			assert!(got.is_none(), "a tile outside the zoom range (or without a source tile) passes the filter");
		}
		// advertised coverage = source coverage restricted to the range
		assert!(s.op.get_parameters().bbox_pyramid.contains_coord(&c) == expected(&s, &c), "advertised coverage differs from the filtered set");
		kani::cover!(got.is_some());
		kani::cover!(got.is_none() && c.z == s.level && inb(&s.src_box, c.x, c.y), "filtered out by zoom");
		kani::cover!(s.min.is_some() && s.max.is_some() && s.min.unwrap() > s.max.unwrap());
		std::mem::forget(got);
		std::mem::forget(s);
	}

	#[kani::proof]
	#[kani::unwind(2)]
	#[kani::stub(std::fmt::format, crate::verif_kani::stubs::fmt_format)]
	#[kani::stub(std::backtrace::Backtrace::capture, crate::verif_kani::stubs::backtrace_capture)]
	#[kani::stub(u32::pow, crate::verif_kani::stubs::u32_pow)]
	fn c09_filter_zoom_stream() {
		let s = setup();
		let q = any_bbox_at(any_level());
		kani::assume(q.width() <= 2 && q.height() <= 1);
		let items = block_on(block_on(s.op.get_tile_stream(q.clone())).collect());
		let mut i = 0;
		while i < items.len() {
			let (c, blob) = &items[i];
			assert!(c.z == q.level && inb(&q, c.x, c.y), "stream delivers a tile outside the requested box");
			assert!(expected(&s, c), "stream delivers a tile outside the filter");
			assert!(payload_of(blob) == Some((1, *c)), "stream changed a tile");
			i += 1;
		}
		let c = TileCoord3 { x: kani::any(), y: kani::any(), z: q.level };
		if inb(&q, c.x, c.y) && expected(&s, &c) {
			let mut found = 0;
			let mut k = 0;
			while k < items.len() {
				if items[k].0 == c {
					found += 1;
				}
				k += 1;
			}
			assert!(found == 1, "stream does not deliver exactly once a tile the lookup returns");
		}
		kani::cover!(items.len() == 2);
		kani::cover!(items.len() == 0 && !q.is_empty() && q.level == s.level);
		std::mem::forget(items);
		std::mem::forget(s);
	}
}
