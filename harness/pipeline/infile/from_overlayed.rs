// ---- in-file Kani harnesses (overlay): overlay returns the tile of the first listed source that has one (C08) ----
#[cfg(kani)]
mod kani_harness {
	use super::*;
	use crate::verif_kani::stubs::block_on;
	use crate::verif_kani::util::*;
	use versatiles_core::utils::decompress;

	struct Setup {
		op: Operation,
		boxes: [TileBBox; 2],
		comps: [TileCompression; 2],
		out: TileCompression,
		level: u8,
	}

	fn setup() -> Setup {
		let level = any_level();
		let (p0, b0) = one_level_pyramid(level);
		let (p1, b1) = one_level_pyramid(level);
		let (c0, c1) = (any_compression(), any_compression());
		// what `build` declares: the common compression, else uncompressed; coverage = union
		let out = if c0 == c1 { c0 } else { TileCompression::Uncompressed };
		let mut pyr = p0.clone();
		pyr.include_bbox_pyramid(&p1);
		let s0 = EchoOp::new(0, p0, c0);
		let s1 = EchoOp::new(1, p1, c1);
		let op = Operation { parameters: TilesReaderParameters::new(TileFormat::PBF, out, pyr), sources: vec![Box::new(s0), Box::new(s1)], tilejson: TileJSON::default() };
		Setup { op, boxes: [b0, b1], comps: [c0, c1], out, level }
	}

	/// index of the first source that has a tile at c
	fn first(s: &Setup, c: &TileCoord3) -> Option<u8> {
		if c.z != s.level {
			return None;
		}
		if inb(&s.boxes[0], c.x, c.y) {
			Some(0)
		} else if inb(&s.boxes[1], c.x, c.y) {
			Some(1)
		} else {
			None
		}
	}

	macro_rules! codec_proof {
		($unw:expr, fn $name:ident() $body:block) => {
			#[kani::proof]
			#[kani::unwind($unw)]
			#[kani::stub(std::fmt::format, crate::verif_kani::stubs::fmt_format)]
			#[kani::stub(std::backtrace::Backtrace::capture, crate::verif_kani::stubs::backtrace_capture)]
			#[kani::stub(u32::pow, crate::verif_kani::stubs::u32_pow)]
			#[kani::stub(versatiles_core::utils::compress_gzip, crate::verif_kani::codec::compress_gzip)]
			#[kani::stub(versatiles_core::utils::compress_brotli, crate::verif_kani::codec::compress_brotli)]
			#[kani::stub(versatiles_core::utils::compress_brotli_fast, crate::verif_kani::codec::compress_brotli_fast)]
			#[kani::stub(versatiles_core::utils::decompress_gzip, crate::verif_kani::codec::decompress_gzip)]
			#[kani::stub(versatiles_core::utils::decompress_brotli, crate::verif_kani::codec::decompress_brotli)]
			fn $name() $body
		};
	}

	codec_proof! {5, fn c08_overlay_lookup() {
		let s = setup();
		let c = TileCoord3 { x: kani::any(), y: kani::any(), z: any_level() };
		let got = ok(block_on(s.op.get_tile_data(&c)));
		assert!(got.is_some(), "lookup failed");
		let got = got.unwrap();
		match first(&s, &c) {
			Some(i) => {
				assert!(got.is_some(), "overlay misses a tile one of its sources has");
				let plain = ok(decompress(got.clone().unwrap(), &s.out));
				assert!(plain.is_some(), "tile does not decode under the compression the overlay declares");
				assert!(payload_of(&plain.unwrap()) == Some((i, c)), "overlay does not return the tile of the first source that has one");
			}
			None => assert!(got.is_none(), "overlay returns a tile no source has"),
		}
		// advertised coverage contains every returnable tile (C03)
		if got.is_some() {
			assert!(s.op.get_parameters().bbox_pyramid.contains_coord(&c), "a returnable tile lies outside the advertised coverage");
		}
		kani::cover!(first(&s, &c) == Some(1) && s.comps[0] != s.comps[1]);
		kani::cover!(first(&s, &c) == Some(0) && inb(&s.boxes[1], c.x, c.y) && s.out != TileCompression::Uncompressed);
		kani::cover!(first(&s, &c).is_none() && c.z == s.level);
		std::mem::forget(got);
		std::mem::forget(s);
	}}

	codec_proof! {5, fn c08_overlay_stream() {
		let s = setup();
		let q = any_bbox_at(s.level);
		kani::assume(q.width() <= 2 && q.height() <= 1);
		let items = block_on(block_on(s.op.get_tile_stream(q.clone())).collect());
		let mut i = 0;
		while i < items.len() {
			let (c, blob) = &items[i];
			assert!(c.z == s.level && inb(&q, c.x, c.y), "stream delivers a tile outside the requested box");
			let f = first(&s, c);
			assert!(f.is_some(), "stream delivers a tile no source has");
			let plain = ok(decompress(blob.clone(), &s.out));
			assert!(plain.is_some() && payload_of(&plain.unwrap()) == Some((f.unwrap(), *c)), "stream and lookup disagree on which source wins");
			i += 1;
		}
		let c = TileCoord3 { x: kani::any(), y: kani::any(), z: s.level };
		if inb(&q, c.x, c.y) && first(&s, &c).is_some() {
			let mut found = 0;
			let mut k = 0;
			while k < items.len() {
				if items[k].0 == c {
					found += 1;
				}
				k += 1;
			}
			assert!(found == 1, "stream does not deliver exactly once a tile the lookup returns");
		}
		kani::cover!(items.len() == 2);
		std::mem::forget(items);
		std::mem::forget(s);
	}}
}
