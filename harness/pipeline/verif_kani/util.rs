#![allow(dead_code)]
use crate::traits::OperationTrait;
use async_trait::async_trait;
use versatiles_core::tilejson::TileJSON;
use versatiles_core::types::*;

pub fn ok<T>(r: anyhow::Result<T>) -> Option<T> {
	match r {
		Ok(v) => Some(v),
		Err(e) => {
			std::mem::forget(e);
			None
		}
	}
}

pub fn any_level() -> u8 {
	let l: u8 = kani::any();
	kani::assume(l <= 31);
	l
}

pub fn lvl_max(level: u8) -> u32 {
	((1u64 << level) - 1) as u32
}

pub fn any_bbox_at(level: u8) -> TileBBox {
	let max = lvl_max(level);
	let b = TileBBox { level, max, x_min: kani::any(), y_min: kani::any(), x_max: kani::any(), y_max: kani::any() };
	kani::assume(b.x_max <= max && b.y_max <= max && b.x_min as u64 <= max as u64 + 1 && b.y_min as u64 <= max as u64 + 1);
	b
}

pub fn one_level_pyramid(level: u8) -> (TileBBoxPyramid, TileBBox) {
	let b = any_bbox_at(level);
	let mut p = TileBBoxPyramid::new_empty();
	p.set_level_bbox(b.clone());
	(p, b)
}

pub fn inb(b: &TileBBox, x: u32, y: u32) -> bool {
	b.x_min <= x && x <= b.x_max && b.y_min <= y && y <= b.y_max
}

pub fn any_compression() -> TileCompression {
	let i: u8 = kani::any();
	kani::assume(i < 3);
	match i {
		0 => TileCompression::Uncompressed,
		1 => TileCompression::Gzip,
		_ => TileCompression::Brotli,
	}
}

/// payload = (source tag, coordinate): the oracle reads off which source and which tile a result came from
pub fn coord_payload(tag: u8, c: &TileCoord3) -> Blob {
	let mut v = Vec::with_capacity(10);
	v.push(tag);
	v.extend_from_slice(&c.x.to_be_bytes());
	v.extend_from_slice(&c.y.to_be_bytes());
	v.push(c.z);
	Blob::from(v)
}

pub fn payload_of(b: &Blob) -> Option<(u8, TileCoord3)> {
	let s = b.as_slice();
	if s.len() != 10 {
		return None;
	}
	let x = ((s[1] as u32) << 24) | ((s[2] as u32) << 16) | ((s[3] as u32) << 8) | s[4] as u32;
	let y = ((s[5] as u32) << 24) | ((s[6] as u32) << 16) | ((s[7] as u32) << 8) | s[8] as u32;
	Some((s[0], TileCoord3 { x, y, z: s[9] }))
}

pub static mut STREAM_REQUESTS: [Option<TileBBox>; 4] = [None, None, None, None];

/// Echo source: holds a tile exactly where its advertised pyramid says (one symbolic box at one level)
#[derive(Debug)]
pub struct EchoOp {
	pub parameters: TilesReaderParameters,
	pub tilejson: TileJSON,
	pub tag: u8,
}

impl EchoOp {
	pub fn new(tag: u8, pyramid: TileBBoxPyramid, compression: TileCompression) -> Self {
		EchoOp { parameters: TilesReaderParameters::new(TileFormat::PBF, compression, pyramid), tilejson: TileJSON::default(), tag }
	}
	pub fn has(&self, c: &TileCoord3) -> bool {
		self.parameters.bbox_pyramid.contains_coord(c)
	}
	pub fn stored(&self, c: &TileCoord3) -> Blob {
		let p = coord_payload(self.tag, c);
		match self.parameters.tile_compression {
			TileCompression::Uncompressed => p,
			TileCompression::Gzip => super::codec::compress_gzip(&p).unwrap(),
			TileCompression::Brotli => super::codec::compress_brotli(&p).unwrap(),
		}
	}
}

#[async_trait]
impl OperationTrait for EchoOp {
	fn get_parameters(&self) -> &TilesReaderParameters {
		&self.parameters
	}
	fn get_tilejson(&self) -> &TileJSON {
		&self.tilejson
	}
	async fn get_tile_data(&self, coord: &TileCoord3) -> anyhow::Result<Option<Blob>> {
		if self.has(coord) {
			Ok(Some(self.stored(coord)))
		} else {
			Ok(None)
		}
	}
	async fn get_tile_stream(&self, bbox: TileBBox) -> TileStream {
		unsafe { STREAM_REQUESTS[(self.tag & 3) as usize] = Some(bbox.clone()) };
		let mut v: Vec<(TileCoord3, Blob)> = Vec::new();
		let lb = self.parameters.bbox_pyramid.get_level_bbox(bbox.level);
		let mut b = bbox.clone();
		if ok(b.intersect_bbox(lb)).is_some() && !b.is_empty() {
			let mut y = b.y_min;
			while y <= b.y_max {
				let mut x = b.x_min;
				while x <= b.x_max {
					let c = TileCoord3 { x, y, z: b.level };
					v.push((c, self.stored(&c)));
					x += 1;
				}
				y += 1;
			}
		}
		TileStream::from_vec(v)
	}
}
