// Kani harnesses for versatiles_pipeline (overlay; exists only in the scratch copy)
#![allow(unused_imports, dead_code, clippy::all)]
pub use versatiles_core::types::Blob as BlobT;
pub mod codec;
pub mod stubs;
pub mod util;
pub mod vmap;
