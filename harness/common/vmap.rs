// Association-list model of std::collections::HashMap (same API surface as far as the
// repository uses it). The real hashbrown table is out of reach for CBMC; with this model the
// claims are about the repository's logic *given* a correct map. Iteration order is insertion
// order (unspecified in the real map), so oracles must be order-insensitive.
#![allow(dead_code)]
use std::borrow::Borrow;

#[derive(Clone, Debug)]
pub struct HashMap<K, V> {
	pub items: Vec<(K, V)>,
}

impl<K, V> Default for HashMap<K, V> {
	fn default() -> Self {
		Self { items: Vec::new() }
	}
}

impl<K, V> HashMap<K, V> {
	pub fn new() -> Self {
		Self { items: Vec::new() }
	}
	pub fn len(&self) -> usize {
		self.items.len()
	}
	pub fn is_empty(&self) -> bool {
		self.items.is_empty()
	}
}

impl<K: Eq, V> HashMap<K, V> {
	fn pos<Q: ?Sized + Eq>(&self, k: &Q) -> Option<usize>
	where
		K: Borrow<Q>,
	{
		let mut i = 0;
		while i < self.items.len() {
			if self.items[i].0.borrow() == k {
				return Some(i);
			}
			i += 1;
		}
		None
	}
	pub fn get<Q: ?Sized + Eq>(&self, k: &Q) -> Option<&V>
	where
		K: Borrow<Q>,
	{
		match self.pos(k) {
			Some(i) => Some(&self.items[i].1),
			None => None,
		}
	}
	pub fn get_mut<Q: ?Sized + Eq>(&mut self, k: &Q) -> Option<&mut V>
	where
		K: Borrow<Q>,
	{
		match self.pos(k) {
			Some(i) => Some(&mut self.items[i].1),
			None => None,
		}
	}
	pub fn contains_key<Q: ?Sized + Eq>(&self, k: &Q) -> bool
	where
		K: Borrow<Q>,
	{
		self.pos(k).is_some()
	}
	pub fn insert(&mut self, k: K, v: V) -> Option<V> {
		match self.pos(&k) {
			Some(i) => Some(std::mem::replace(&mut self.items[i].1, v)),
			None => {
				self.items.push((k, v));
				None
			}
		}
	}
	pub fn remove<Q: ?Sized + Eq>(&mut self, k: &Q) -> Option<V>
	where
		K: Borrow<Q>,
	{
		match self.pos(k) {
			Some(i) => Some(self.items.remove(i).1),
			None => None,
		}
	}
	pub fn entry(&mut self, k: K) -> Entry<'_, K, V> {
		let pos = self.pos(&k);
		Entry { map: self, key: k, pos }
	}
	pub fn values(&self) -> impl Iterator<Item = &V> {
		self.items.iter().map(|(_, v)| v)
	}
	pub fn values_mut(&mut self) -> impl Iterator<Item = &mut V> {
		self.items.iter_mut().map(|(_, v)| v)
	}
	pub fn keys(&self) -> impl Iterator<Item = &K> {
		self.items.iter().map(|(k, _)| k)
	}
	pub fn iter(&self) -> impl Iterator<Item = (&K, &V)> {
		self.items.iter().map(|(k, v)| (k, v))
	}
	pub fn into_values(self) -> impl Iterator<Item = V> {
		self.items.into_iter().map(|(_, v)| v)
	}
	pub fn retain<F: FnMut(&K, &mut V) -> bool>(&mut self, mut f: F) {
		self.items.retain_mut(|(k, v)| f(k, v));
	}
}

impl<K: Eq, V> IntoIterator for HashMap<K, V> {
	type Item = (K, V);
	type IntoIter = std::vec::IntoIter<(K, V)>;
	fn into_iter(self) -> Self::IntoIter {
		self.items.into_iter()
	}
}

impl<K: Eq, V> FromIterator<(K, V)> for HashMap<K, V> {
	fn from_iter<I: IntoIterator<Item = (K, V)>>(iter: I) -> Self {
		let mut m = Self::new();
		for (k, v) in iter {
			m.insert(k, v);
		}
		m
	}
}

impl<K: Eq, V, const N: usize> From<[(K, V); N]> for HashMap<K, V> {
	fn from(a: [(K, V); N]) -> Self {
		Self::from_iter(a)
	}
}

pub struct Entry<'a, K, V> {
	map: &'a mut HashMap<K, V>,
	key: K,
	pos: Option<usize>,
}

impl<'a, K: Eq, V> Entry<'a, K, V> {
	pub fn or_insert(self, default: V) -> &'a mut V {
		match self.pos {
			Some(i) => &mut self.map.items[i].1,
			None => {
				self.map.items.push((self.key, default));
				let n = self.map.items.len() - 1;
				&mut self.map.items[n].1
			}
		}
	}
	pub fn or_insert_with<F: FnOnce() -> V>(self, f: F) -> &'a mut V {
		match self.pos {
			Some(i) => &mut self.map.items[i].1,
			None => {
				self.map.items.push((self.key, f()));
				let n = self.map.items.len() - 1;
				&mut self.map.items[n].1
			}
		}
	}
	pub fn and_modify<F: FnOnce(&mut V)>(self, f: F) -> Self {
		if let Some(i) = self.pos {
			f(&mut self.map.items[i].1);
		}
		self
	}
}

impl<K: Eq, V: PartialEq> PartialEq for HashMap<K, V> {
	fn eq(&self, other: &Self) -> bool {
		if self.items.len() != other.items.len() {
			return false;
		}
		let mut i = 0;
		while i < self.items.len() {
			match other.get(&self.items[i].0) {
				Some(v) => {
					if *v != self.items[i].1 {
						return false;
					}
				}
				None => return false,
			}
			i += 1;
		}
		true
	}
}
impl<K: Eq, V: Eq> Eq for HashMap<K, V> {}
