// Stubs and models shared by all Kani harnesses (copied into every overlaid crate as
// `crate::verif_kani::stubs`). Each one is part of the claim and is listed in the evidence.
#![allow(dead_code)]

/// `std::fmt::format` -> empty string. The *text* of messages is outside every claim.
pub fn fmt_format(_args: std::fmt::Arguments<'_>) -> String {
	String::new()
}

/// `Backtrace::capture` -> disabled backtrace (anyhow captures one per error).
pub fn backtrace_capture() -> std::backtrace::Backtrace {
	std::backtrace::Backtrace::disabled()
}

/// `u32::pow` for base 2 only: same value, same overflow panic as the library loop.
pub fn u32_pow(base: u32, exp: u32) -> u32 {
	assert!(base == 2, "u32::pow model only covers base 2");
	assert!(exp < 32, "attempt to multiply with overflow");
	1u32 << exp
}

/// `u64::pow` for base 2 only.
pub fn u64_pow(base: u64, exp: u32) -> u64 {
	assert!(base == 2, "u64::pow model only covers base 2");
	assert!(exp < 64, "attempt to multiply with overflow");
	1u64 << exp
}

/// `f64::powi(2.0, z)` exact for 0 <= z <= 63.
pub fn f64_powi(base: f64, exp: i32) -> f64 {
	assert!(base == 2.0, "f64::powi model only covers base 2");
	assert!((0..=63).contains(&exp));
	(1u64 << exp) as f64
}

/// Hand-rolled executor for futures that never really suspend.
pub fn block_on<F: std::future::Future>(fut: F) -> F::Output {
	use std::task::{Context, Poll, Waker};
	let mut fut = std::pin::pin!(fut);
	let waker = Waker::noop();
	let mut cx = Context::from_waker(waker);
	let mut n = 0;
	loop {
		if let Poll::Ready(v) = fut.as_mut().poll(&mut cx) {
			return v;
		}
		n += 1;
		assert!(n < 4, "future did not complete: it waits on something the harness does not model");
	}
}
