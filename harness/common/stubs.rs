// Stubs and models shared by all Kani harnesses (copied into every overlaid crate as
// `crate::verif_kani::stubs`). Each one is part of the claim and is listed in the evidence.
#![allow(dead_code)]

/// `std::fmt::format` -> empty string. The *text* of messages is outside every claim.
pub fn fmt_format(_args: std::fmt::Arguments<'_>) -> String {
	String::new()
}

/// `Backtrace::capture` -> disabled backtrace (anyhow captures one per error).
pub fn backtrace_capture() -> std::backtrace::Backtrace {
	std::backtrace::Backtrace::disabled()
}

/// `u32::pow` for base 2 only: same value, same overflow panic as the library loop.
pub fn u32_pow(base: u32, exp: u32) -> u32 {
	assert!(base == 2, "u32::pow model only covers base 2");
	assert!(exp < 32, "attempt to multiply with overflow");
	1u32 << exp
}

/// `u64::pow` for base 2 only.
pub fn u64_pow(base: u64, exp: u32) -> u64 {
	assert!(base == 2, "u64::pow model only covers base 2");
	assert!(exp < 64, "attempt to multiply with overflow");
	1u64 << exp
}

/// `f64::powi(2.0, z)` exact for 0 <= z <= 63.
pub fn f64_powi(base: f64, exp: i32) -> f64 {
	assert!(base == 2.0, "f64::powi model only covers base 2");
	assert!((0..=63).contains(&exp));
	(1u64 << exp) as f64
}

/// Hand-rolled executor for futures that never really suspend. The completed future is leaked on purpose:
/// dropping an async state machine drags the drop glue of every value it may hold (anyhow::Error -> Backtrace ->
/// io::Error ...) into the formula although the state is known to be "finished".
pub fn block_on<F: std::future::Future>(fut: F) -> F::Output {
	use std::task::{Context, Poll, Waker};
	let mut fut = Box::pin(fut);
	let waker = Waker::noop();
	let mut cx = Context::from_waker(waker);
	let mut n = 0;
	loop {
		if let Poll::Ready(v) = fut.as_mut().poll(&mut cx) {
			std::mem::forget(fut);
			return v;
		}
		n += 1;
		assert!(n < 4, "future did not complete: it waits on something the harness does not model");
	}
}

// ---- allocation monitor (C19): `vec![0u8; n]` must stay in proportion to the input size ----
pub static mut ALLOC_LIMIT: usize = usize::MAX;

pub fn set_alloc_limit(input_len: usize) {
	unsafe { ALLOC_LIMIT = 8 * input_len + 64 };
}

/// stands in for `alloc::vec::from_elem::<T>` (what `vec![elem; n]` expands to): checks the size against the
/// monitor's limit, then builds the vector without a data-dependent loop (byte-sized elements: one memset)
pub fn vec_from_elem<T: Clone>(elem: T, n: usize) -> Vec<T> {
	let limit = unsafe { ALLOC_LIMIT };
	assert!(n <= limit, "allocation out of proportion to the input size (announced length is trusted)");
	if std::mem::size_of::<T>() == 1 && n > 0 {
		unsafe {
			let layout = std::alloc::Layout::array::<T>(n).unwrap();
			let p = std::alloc::alloc(layout) as *mut T;
			let byte = *(&elem as *const T as *const u8);
			std::ptr::write_bytes(p as *mut u8, byte, n);
			return Vec::from_raw_parts(p, n, n);
		}
	}
	let mut v = Vec::with_capacity(n);
	let mut i = 0;
	while i < n {
		v.push(elem.clone());
		i += 1;
	}
	v
}

// ---- libm model (geo harnesses): tan/ln/exp/atan are foreign functions Kani cannot execute. They become
// nondeterministic functions that are monotone (non-strictly) and consistent across calls, plus the range
// facts the repository's formulas rely on. Claims that use it hold *given* monotone libm functions.
pub struct MonoFn {
	pub n: usize,
	pub xs: [f64; 6],
	pub rs: [f64; 6],
}

impl MonoFn {
	pub const fn new() -> Self {
		MonoFn { n: 0, xs: [0.0; 6], rs: [0.0; 6] }
	}
	fn call(&mut self, x: f64, increasing: bool) -> f64 {
		let r: f64 = kani::any();
		kani::assume(!r.is_nan());
		let mut i = 0;
		while i < self.n {
			let (xi, ri) = (self.xs[i], self.rs[i]);
			if x == xi {
				kani::assume(r == ri);
			} else if (x < xi) == increasing {
				kani::assume(r <= ri);
			} else {
				kani::assume(r >= ri);
			}
			i += 1;
		}
		assert!(self.n < 6, "libm model: too many calls");
		self.xs[self.n] = x;
		self.rs[self.n] = r;
		self.n += 1;
		r
	}
}

pub static mut TAN: MonoFn = MonoFn::new();
pub static mut LN: MonoFn = MonoFn::new();
pub static mut EXP: MonoFn = MonoFn::new();
pub static mut ATAN: MonoFn = MonoFn::new();

#[allow(static_mut_refs)]
pub fn f64_tan(x: f64) -> f64 {
	// the repository only evaluates tan on [0, pi/2] (latitude in [-90, 90])
	assert!(x >= 0.0 && x <= 1.5707963267948968, "tan model: argument outside [0, pi/2]");
	let r = unsafe { TAN.call(x, true) };
	if x == 0.0 {
		kani::assume(r == 0.0);
	} else {
		kani::assume(r > 0.0);
	}
	// tan(pi/4) = 1 up to rounding, tan is finite at the f64 nearest to pi/2
	kani::assume(r.is_finite());
	if x < 0.78 {
		kani::assume(r < 1.0);
	}
	if x > 0.79 {
		kani::assume(r > 1.0);
	}
	r
}

#[allow(static_mut_refs)]
pub fn f64_ln(x: f64) -> f64 {
	assert!(x >= 0.0, "ln model: negative argument");
	let r = unsafe { LN.call(x, true) };
	if x == 0.0 {
		kani::assume(r == f64::NEG_INFINITY);
	} else {
		kani::assume(r.is_finite() || x == f64::INFINITY);
		if x < 1.0 {
			kani::assume(r < 0.0);
		}
		if x > 1.0 {
			kani::assume(r > 0.0);
		}
		if x == 1.0 {
			kani::assume(r == 0.0);
		}
	}
	r
}

#[allow(static_mut_refs)]
pub fn f64_exp(x: f64) -> f64 {
	let r = unsafe { EXP.call(x, true) };
	kani::assume(r >= 0.0);
	if x == 0.0 {
		kani::assume(r == 1.0);
	}
	if x > 0.0 {
		kani::assume(r > 1.0);
	}
	if x < 0.0 {
		kani::assume(r < 1.0);
	}
	r
}

#[allow(static_mut_refs)]
pub fn f64_atan(x: f64) -> f64 {
	let r = unsafe { ATAN.call(x, true) };
	kani::assume(r > -1.5707963267948968 && r < 1.5707963267948968);
	if x == 0.0 {
		kani::assume(r == 0.0);
	}
	if x > 0.0 {
		kani::assume(r > 0.0);
	}
	if x == 1.0 {
		kani::assume(r == 0.7853981633974483);
	}
	r
}
