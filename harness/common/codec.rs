// Codec model: the contract of a lossless codec and nothing else.
//   enc_X(p) = [TAG_X] ++ p          dec_X([TAG_X] ++ p) = Ok(p)        dec_X(anything else) = Err
// Stands in for versatiles_core::utils::{compress_gzip, compress_brotli, compress_brotli_fast,
// decompress_gzip, decompress_brotli}; the flate2/brotli code is outside every claim that uses it.
#![allow(dead_code)]
use super::BlobT as Blob;
use anyhow::Result;

pub const TAG_GZIP: u8 = 0x1f;
pub const TAG_BROTLI: u8 = 0xb7;

fn enc(tag: u8, b: &Blob) -> Result<Blob> {
	let s = b.as_slice();
	let mut v = Vec::with_capacity(s.len() + 1);
	v.push(tag);
	let mut i = 0;
	while i < s.len() {
		v.push(s[i]);
		i += 1;
	}
	Ok(Blob::from(v))
}

fn dec(tag: u8, b: &Blob) -> Result<Blob> {
	let s = b.as_slice();
	if s.is_empty() || s[0] != tag {
		return Err(anyhow::Error::msg("codec model: not a stream of this codec"));
	}
	let mut v = Vec::with_capacity(s.len());
	let mut i = 1;
	while i < s.len() {
		v.push(s[i]);
		i += 1;
	}
	Ok(Blob::from(v))
}

pub fn compress_gzip(b: &Blob) -> Result<Blob> {
	enc(TAG_GZIP, b)
}
pub fn decompress_gzip(b: &Blob) -> Result<Blob> {
	dec(TAG_GZIP, b)
}
pub fn compress_brotli(b: &Blob) -> Result<Blob> {
	enc(TAG_BROTLI, b)
}
pub fn compress_brotli_fast(b: &Blob) -> Result<Blob> {
	enc(TAG_BROTLI, b)
}
pub fn decompress_brotli(b: &Blob) -> Result<Blob> {
	dec(TAG_BROTLI, b)
}
