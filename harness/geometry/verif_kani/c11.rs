// C10 / C11 / C19 — Mapbox vector tile layer codec, against ground truth produced by an independent encoder.
use super::value::GeoValuePBF;
use super::feature::VectorTileFeature;
use super::geometry_type::GeomType;
use super::{VectorTile, VectorTileLayer};
use crate::GeoValue;
use byteorder::LE;
use versatiles_core::io::*;
use versatiles_core::types::Blob;

pub fn ok<T>(r: anyhow::Result<T>) -> Option<T> {
	match r {
		Ok(v) => Some(v),
		Err(e) => {
			std::mem::forget(e);
			None
		}
	}
}

macro_rules! vproof {
	($unw:expr, fn $name:ident() $body:block) => {
		#[kani::proof]
		#[kani::unwind($unw)]
		#[kani::stub(std::fmt::format, crate::verif_kani::stubs::fmt_format)]
		#[kani::stub(std::backtrace::Backtrace::capture, crate::verif_kani::stubs::backtrace_capture)]
		#[kani::stub(alloc::vec::from_elem, crate::verif_kani::stubs::vec_from_elem)]
		fn $name() $body
	};
}

// ---------------------------------------------------------------------------------- value codec
fn value_roundtrip(v: GeoValue) {
	let blob = ok(v.to_blob()).unwrap();
	let mut r = ValueReaderSlice::new_le(blob.as_slice());
	let back = ok(GeoValue::read(&mut r));
	assert!(back.is_some(), "a value written by to_blob is rejected by read");
	let back = back.unwrap();
	let same = match (&v, &back) {
		(GeoValue::Float(a), GeoValue::Float(b)) => a.to_bits() == b.to_bits(),
		(GeoValue::Double(a), GeoValue::Double(b)) => a.to_bits() == b.to_bits(),
		(a, b) => a == b,
	};
	assert!(same, "read(to_blob(v)) != v");
	std::mem::forget(blob);
	std::mem::forget(back);
	std::mem::forget(v);
}

vproof! {12, fn c11_value_uint() { let v: u64 = kani::any(); value_roundtrip(GeoValue::UInt(v)); kani::cover!(v > u64::MAX / 2); }}
vproof! {12, fn c11_value_int() { let v: i64 = kani::any(); value_roundtrip(GeoValue::Int(v)); kani::cover!(v < 0); }}
vproof! {12, fn c11_value_bool() { let v: bool = kani::any(); value_roundtrip(GeoValue::Bool(v)); kani::cover!(v); }}
vproof! {12, fn c11_value_float() { let v: u32 = kani::any(); value_roundtrip(GeoValue::Float(f32::from_bits(v))); kani::cover!(f32::from_bits(v).is_nan()); }}
vproof! {12, fn c11_value_double() { let v: u64 = kani::any(); value_roundtrip(GeoValue::Double(f64::from_bits(v))); kani::cover!(f64::from_bits(v).is_nan()); }}
vproof! {12, fn c11_value_string() {
	let b: [u8; 2] = kani::any();
	kani::assume(b[0] < 0x80 && b[1] < 0x80);
	let n: usize = kani::any();
	kani::assume(n <= 2);
	let s = String::from_utf8(b[..n].to_vec()).unwrap();
	value_roundtrip(GeoValue::String(s));
	kani::cover!(n == 2);
}}

// ---------------------------------------------------------------------------------- value codec, one side at a time
// GeoValue::read is only reachable through `&mut dyn ValueReader`; on the repository's readers (Cursor / File behind
// `dyn SeekRead`) CBMC does not finish. The scripted reader below answers the primitive reads with symbolic values, so the
// harness decides the part GeoValue::read itself owns: which (field, wire type) selects which variant and how the primitive
// value is converted. The primitives are decided separately (c11_varint_roundtrip, c11_svarint_roundtrip).
struct ScriptReader {
	left: u8,
	key: (u32, u8),
	varint: u64,
	svarint: i64,
	f32v: f32,
	f64v: f64,
}

impl<'a> ValueReader<'a, LE> for ScriptReader {
	fn get_reader(&mut self) -> &mut dyn SeekRead {
		unreachable!()
	}
	fn len(&self) -> u64 {
		self.left as u64
	}
	fn position(&mut self) -> u64 {
		0
	}
	fn set_position(&mut self, _position: u64) -> anyhow::Result<()> {
		Ok(())
	}
	fn has_remaining(&mut self) -> bool {
		self.left > 0
	}
	fn read_pbf_key(&mut self) -> anyhow::Result<(u32, u8)> {
		self.left -= 1;
		Ok(self.key)
	}
	fn read_varint(&mut self) -> anyhow::Result<u64> {
		Ok(self.varint)
	}
	fn read_svarint(&mut self) -> anyhow::Result<i64> {
		Ok(self.svarint)
	}
	fn read_f32(&mut self) -> anyhow::Result<f32> {
		Ok(self.f32v)
	}
	fn read_f64(&mut self) -> anyhow::Result<f64> {
		Ok(self.f64v)
	}
	fn read_string(&mut self, _length: u64) -> anyhow::Result<String> {
		Ok(String::new())
	}
	fn get_sub_reader<'b>(&'b mut self, _length: u64) -> anyhow::Result<Box<dyn ValueReader<'b, LE> + 'b>>
	where
		LE: 'b,
	{
		unreachable!()
	}
}

vproof! {4, fn c11_value_read_kinds() {
	let (f, w): (u32, u8) = (kani::any(), kani::any());
	let (v, sv): (u64, i64) = (kani::any(), kani::any());
	let (fb, db): (u32, u64) = (kani::any(), kani::any());
	let mut r = ScriptReader { left: 1, key: (f, w), varint: v, svarint: sv, f32v: f32::from_bits(fb), f64v: f64::from_bits(db) };
	let got = ok(GeoValue::read(&mut r));
	match (f, w) {
		(1, 2) => assert!(matches!(got, Some(GeoValue::String(_))), "field 1 (string_value) is not read as a string"),
		(2, 5) => assert!(matches!(got, Some(GeoValue::Float(x)) if x.to_bits() == fb), "field 2 (float_value) is not read as this float"),
		(3, 1) => assert!(matches!(got, Some(GeoValue::Double(x)) if x.to_bits() == db), "field 3 (double_value) is not read as this double"),
		// int_value is an int64 stored as a plain two's-complement varint: -1 arrives as 2^64-1
		(4, 0) => assert!(matches!(got, Some(GeoValue::Int(x)) if x == v as i64), "field 4 (int_value) is not the two's-complement reading of the varint"),
		(5, 0) => assert!(matches!(got, Some(GeoValue::UInt(x)) if x == v), "field 5 (uint_value) is not the varint"),
		(6, 0) => assert!(matches!(got, Some(GeoValue::Int(x)) if x == sv), "field 6 (sint_value) is not the zigzag varint"),
		(7, 0) => assert!(matches!(got, Some(GeoValue::Bool(x)) if x == (v != 0)), "field 7 (bool_value) is not varint != 0"),
		_ => assert!(got.is_none(), "an unknown field / wire type combination is accepted as a value"),
	}
	kani::cover!(f == 4 && w == 0 && v > u64::MAX / 2, "negative int_value");
	kani::cover!(f == 6 && w == 0 && sv < 0);
	kani::cover!(f == 9);
	std::mem::forget(got);
}}

// no value at all: an empty Value message is an error, not a panic
vproof! {4, fn c11_value_read_empty() {
	let mut r = ScriptReader { left: 0, key: (0, 0), varint: 0, svarint: 0, f32v: 0.0, f64v: 0.0 };
	let got = ok(GeoValue::read(&mut r));
	assert!(got.is_none());
	std::mem::forget(got);
}}

// reference protobuf reader (written from the encoding guide): varint at `at`, returns (value, next)
fn ref_varint(b: &[u8], mut at: usize) -> Option<(u64, usize)> {
	let mut v: u64 = 0;
	let mut shift = 0u32;
	while at < b.len() && shift < 70 {
		let byte = b[at];
		at += 1;
		if shift < 64 {
			v |= ((byte & 0x7f) as u64) << shift;
		}
		if byte & 0x80 == 0 {
			return Some((v, at));
		}
		shift += 7;
	}
	None
}

// to_blob writes key (field << 3 | wire) and the payload the Mapbox vector tile Value message prescribes for the variant
fn value_write<const KIND: u8>() {
	let (u, i, b): (u64, i64, bool) = (kani::any(), kani::any(), kani::any());
	let (fb, db): (u32, u64) = (kani::any(), kani::any());
	let v = match KIND {
		0 => GeoValue::UInt(u),
		1 => GeoValue::Int(i),
		2 => GeoValue::Bool(b),
		3 => GeoValue::Float(f32::from_bits(fb)),
		_ => GeoValue::Double(f64::from_bits(db)),
	};
	let blob = ok(v.to_blob()).unwrap();
	let s = blob.as_slice();
	assert!(s.len() >= 2);
	let (field, wire) = ((s[0] >> 3) as u32, s[0] & 7);
	match KIND {
		0 => {
			assert!(field == 5 && wire == 0, "UInt is not written as uint_value");
			let d = ref_varint(s, 1);
			assert!(d == Some((u, s.len())), "uint_value payload is not the varint of the value");
		}
		1 => {
			// the writer may use sint_value (zigzag) or int_value (two's complement); both denote the same integer
			let d = ref_varint(s, 1);
			assert!(d.is_some() && d.unwrap().1 == s.len(), "integer payload is not one varint");
			let raw = d.unwrap().0;
			if field == 6 {
				let zz = ((raw >> 1) as i64) ^ -((raw & 1) as i64);
				assert!(wire == 0 && zz == i, "sint_value payload is not the zigzag varint of the value");
			} else {
				assert!(field == 4 && wire == 0 && raw as i64 == i, "Int is written as neither sint_value nor int_value of the value");
			}
		}
		2 => {
			assert!(field == 7 && wire == 0, "Bool is not written as bool_value");
			assert!(ref_varint(s, 1) == Some((b as u64, s.len())));
		}
		3 => {
			assert!(field == 2 && wire == 5 && s.len() == 5, "Float is not written as a 4-byte float_value");
			assert!(u32::from_le_bytes([s[1], s[2], s[3], s[4]]) == fb);
		}
		_ => {
			assert!(field == 3 && wire == 1 && s.len() == 9, "Double is not written as an 8-byte double_value");
			assert!(u64::from_le_bytes([s[1], s[2], s[3], s[4], s[5], s[6], s[7], s[8]]) == db);
		}
	}
	kani::cover!(s.len() >= if KIND == 2 { 2 } else { 5 });
	std::mem::forget(blob);
	std::mem::forget(v);
}
vproof! {12, fn c11_value_write_uint() { value_write::<0>(); }}
vproof! {12, fn c11_value_write_int() { value_write::<1>(); }}
vproof! {12, fn c11_value_write_bool() { value_write::<2>(); }}
vproof! {12, fn c11_value_write_float() { value_write::<3>(); }}
vproof! {12, fn c11_value_write_double() { value_write::<4>(); }}

// ---------------------------------------------------------------------------------- update stage kernel: which features survive, in which order
// VectorTileLayer::filter_map_properties is what vectortiles_update_properties runs on the named layer. Features here carry
// no tags (so the property tables stay empty and the table code is not the subject); the closure keeps or removes by call
// order according to a symbolic mask. Retained features must keep id, geometry type, geometry bytes and their ORDER.
fn filter_map_order<const N: usize>() {
	use super::feature::VectorTileFeature;
	use super::geometry_type::GeomType;
	use crate::GeoProperties;
	use std::cell::Cell;
	let ids: [Option<u64>; N] = kani::any();
	let keep: [bool; N] = kani::any();
	let mut layer = VectorTileLayer::new(String::new(), 4096, 2);
	let mut i = 0;
	while i < N {
		let gt = match i % 3 { 0 => GeomType::MultiPoint, 1 => GeomType::MultiLineString, _ => GeomType::MultiPolygon };
		layer.features.push(VectorTileFeature { id: ids[i], tag_ids: Vec::new(), geom_type: gt, geom_data: Blob::from(vec![i as u8]) });
		i += 1;
	}
	let calls = Cell::new(0usize);
	let r = ok(layer.filter_map_properties(|p: GeoProperties| {
		let k = calls.get();
		calls.set(k + 1);
		if k < N && keep[k] { Some(p) } else { std::mem::forget(p); None }
	}));
	assert!(r.is_some(), "filter_map_properties fails on a layer without tags");
	assert!(calls.get() == N, "the filter is not asked exactly once per feature");
	// expected: the kept features, in their original order
	let mut want = 0usize;
	let mut j = 0usize;
	let mut i = 0;
	while i < N {
		if keep[i] {
			assert!(j < layer.features.len(), "a retained feature is missing");
			let f = &layer.features[j];
			assert!(f.id == ids[i], "retained features changed order or id");
			assert!(f.geom_data.len() == 1 && f.geom_data.as_slice()[0] == i as u8, "geometry bytes of a retained feature changed");
			assert!(f.geom_type as u8 == (i % 3 + 1) as u8, "geometry type of a retained feature changed");
			assert!(f.tag_ids.is_empty());
			j += 1;
			want += 1;
		}
		i += 1;
	}
	assert!(layer.features.len() == want, "a removed feature is still there");
	kani::cover!(N >= 3 && !keep[0] && keep[N - 1] && keep[N - 2], "a removed feature followed by retained ones");
	std::mem::forget(layer);
}
vproof! {5, fn c11_filter_map_order_3() { filter_map_order::<3>(); }}
vproof! {8, fn c11_filter_map_order_4() { filter_map_order::<4>(); }}

// ---------------------------------------------------------------------------------- layer: ground truth
const KEY_POOL: [u8; 2] = [b'a', b'b'];
const VAL_POOL: [u8; 2] = [7, 9];

struct Truth<const NK: usize, const NV: usize> {
	keys: [u8; NK],     // one-letter key strings, chosen from the pool (duplicates possible)
	vals: [u8; NV],     // UInt values, chosen from the pool (duplicates possible)
	id: u8,             // feature id (< 128)
	geom_type: u8,      // 0..=3
	geom: u8,           // one opaque geometry byte
	tag: (u8, u8),      // indices into the tables
	extent: u8,
}

fn any_truth<const NK: usize, const NV: usize>() -> Truth<NK, NV> {
	let mut keys = [0u8; NK];
	let mut vals = [0u8; NV];
	let mut i = 0;
	while i < NK {
		let c: bool = kani::any();
		keys[i] = KEY_POOL[c as usize];
		i += 1;
	}
	i = 0;
	while i < NV {
		let c: bool = kani::any();
		vals[i] = VAL_POOL[c as usize];
		i += 1;
	}
	let t = Truth { keys, vals, id: kani::any(), geom_type: kani::any(), geom: kani::any(), tag: (kani::any(), kani::any()), extent: kani::any() };
	kani::assume(t.id < 128 && t.geom_type <= 3 && (t.tag.0 as usize) < NK && (t.tag.1 as usize) < NV && t.extent >= 1 && t.extent < 128);
	t
}

/// independent encoder, straight from the MVT 2.1 protobuf schema (all lengths < 128, one byte each)
fn encode_layer<const NK: usize, const NV: usize>(t: &Truth<NK, NV>) -> Vec<u8> {
	let mut o: Vec<u8> = Vec::with_capacity(64);
	o.extend_from_slice(&[0x0a, 0x01, b'L']); // name = "L"
	// feature { id = 1: varint, tags = 2: packed, type = 3: varint, geometry = 4: packed }
	o.extend_from_slice(&[0x12, 11, 0x08, t.id, 0x12, 0x02, t.tag.0, t.tag.1, 0x18, t.geom_type, 0x22, 0x01, t.geom]);
	let mut i = 0;
	while i < NK {
		o.extend_from_slice(&[0x1a, 0x01, t.keys[i]]);
		i += 1;
	}
	i = 0;
	while i < NV {
		o.extend_from_slice(&[0x22, 0x02, 0x28, t.vals[i]]); // value { uint_value = 5 }
		i += 1;
	}
	o.extend_from_slice(&[0x28, t.extent]); // extent = 5
	o
}

fn check_layer<const NK: usize, const NV: usize>(layer: &VectorTileLayer, t: &Truth<NK, NV>) {
	assert!(layer.name.as_bytes() == b"L", "layer name");
	assert!(layer.extent == t.extent as u32, "extent");
	assert!(layer.features.len() == 1, "number of features");
	let f = &layer.features[0];
	assert!(f.id == Some(t.id as u64), "feature id");
	assert!(f.geom_type.as_u64() == t.geom_type as u64, "geometry type");
	assert!(f.geom_data.as_slice().len() == 1 && f.geom_data.as_slice()[0] == t.geom, "geometry bytes");
	assert!(f.tag_ids.len() == 2, "number of tags");
	// the tag pair must still denote the ground-truth key and value
	let k = layer.property_manager.key.list.get(f.tag_ids[0] as usize);
	assert!(k.is_some(), "tag key index points past the key table");
	assert!(k.unwrap().as_bytes().len() == 1 && k.unwrap().as_bytes()[0] == t.keys[t.tag.0 as usize], "tag no longer denotes its key");
	let v = layer.property_manager.val.list.get(f.tag_ids[1] as usize);
	assert!(v.is_some(), "tag value index points past the value table");
	assert!(*v.unwrap() == GeoValue::UInt(t.vals[t.tag.1 as usize] as u64), "tag no longer denotes its value");
}

fn layer_read<const NK: usize, const NV: usize>() {
	let t = any_truth::<NK, NV>();
	let bytes = encode_layer(&t);
	crate::verif_kani::stubs::set_alloc_limit(bytes.len());
	let mut r = ValueReaderSlice::new_le(&bytes);
	let layer = ok(VectorTileLayer::read(&mut r));
	assert!(layer.is_some(), "a valid layer is rejected");
	let layer = layer.unwrap();
	check_layer(&layer, &t);
	kani::cover!(NK < 2 || (t.keys[0] == t.keys[1] && t.tag.0 == 1), "duplicate key entry, tag points at the second");
	kani::cover!(NV < 2 || (t.vals[0] == t.vals[1] && t.tag.1 == 1), "duplicate value entry, tag points at the second");
	kani::cover!(NK < 2 || t.keys[0] != t.keys[1]);
	std::mem::forget(layer);
}

fn layer_reencode<const NK: usize, const NV: usize>() {
	let t = any_truth::<NK, NV>();
	let bytes = encode_layer(&t);
	crate::verif_kani::stubs::set_alloc_limit(bytes.len());
	let mut r = ValueReaderSlice::new_le(&bytes);
	let layer = ok(VectorTileLayer::read(&mut r)).unwrap();
	let blob = ok(layer.to_blob());
	assert!(blob.is_some(), "a decoded layer cannot be re-encoded");
	let blob = blob.unwrap();
	let mut r2 = ValueReaderSlice::new_le(blob.as_slice());
	let again = ok(VectorTileLayer::read(&mut r2));
	assert!(again.is_some(), "a re-encoded layer is rejected");
	let again = again.unwrap();
	check_layer(&again, &t);
	kani::cover!(NK < 2 || (t.keys[0] == t.keys[1] && t.tag.0 == 1));
	std::mem::forget(layer);
	std::mem::forget(again);
	std::mem::forget(blob);
}

vproof! {8, fn c11_layer_read_1_1() { layer_read::<1, 1>(); }}
vproof! {8, fn c11_layer_read_2_2() { layer_read::<2, 2>(); }}
vproof! {8, fn c11_layer_reencode_1_1() { layer_reencode::<1, 1>(); }}
vproof! {8, fn c11_layer_reencode_2_2() { layer_reencode::<2, 2>(); }}

// ---------------------------------------------------------------------------------- C19: arbitrary bytes
fn tile_any<const N: usize>() {
	let b: [u8; N] = kani::any();
	crate::verif_kani::stubs::set_alloc_limit(N);
	let blob = Blob::from(b.to_vec());
	let r = VectorTile::from_blob(&blob);
	let good = r.is_ok();
	std::mem::forget(r);
	std::mem::forget(blob);
	kani::cover!(good);
	kani::cover!(!good || N == 0);
}
fn value_any<const N: usize>() {
	let b: [u8; N] = kani::any();
	crate::verif_kani::stubs::set_alloc_limit(N);
	let mut r = ValueReaderSlice::new_le(&b);
	let v = GeoValue::read(&mut r);
	let good = v.is_ok();
	std::mem::forget(v);
	kani::cover!(good || N == 0);
	kani::cover!(!good);
}
fn layer_any<const N: usize>() {
	let b: [u8; N] = kani::any();
	crate::verif_kani::stubs::set_alloc_limit(N);
	let mut r = ValueReaderSlice::new_le(&b);
	let v = VectorTileLayer::read(&mut r);
	let good = v.is_ok();
	std::mem::forget(v);
	kani::cover!(good || N < 3);
	kani::cover!(!good);
}
vproof! {8, fn c19_vector_tile_any_0() { tile_any::<0>(); }}
vproof! {8, fn c19_vector_tile_any_2() { tile_any::<2>(); }}
vproof! {8, fn c19_vector_tile_any_4() { tile_any::<4>(); }}
vproof! {8, fn c19_geo_value_any_0() { value_any::<0>(); }}
vproof! {12, fn c19_geo_value_any_3() { value_any::<3>(); }}
vproof! {14, fn c19_geo_value_any_10() { value_any::<10>(); }}
vproof! {8, fn c19_layer_any_3() { layer_any::<3>(); }}
vproof! {10, fn c19_layer_any_5() { layer_any::<5>(); }}

// ---------------------------------------------------------------------------------- C19: geometry decoding
// VectorTileFeature::to_geometry on arbitrary geometry bytes (what to_feature / to_features run on every feature of a tile
// read from a container): an error or a geometry, never a panic / abort. T = geometry type (concrete per instance).
fn geom_type_of(t: u8) -> GeomType {
	match t {
		1 => GeomType::MultiPoint,
		2 => GeomType::MultiLineString,
		3 => GeomType::MultiPolygon,
		_ => GeomType::Unknown,
	}
}
fn feature_geometry_any<const N: usize, const T: u8>() {
	let b: [u8; N] = kani::any();
	let f = VectorTileFeature { id: None, tag_ids: Vec::new(), geom_type: geom_type_of(T), geom_data: Blob::from(b.to_vec()) };
	let g = f.to_geometry();
	let good = g.is_ok();
	std::mem::forget(g);
	std::mem::forget(f);
	kani::cover!(good || N < 3);
	kani::cover!(!good);
}
// the command integer is ONE varint of 9 bytes (count up to 2^60: far more points than bytes follow), then E more bytes
fn feature_geometry_longcmd<const E: usize, const T: u8>() {
	let mut b: [u8; 9] = kani::any();
	let mut i = 0;
	while i < 8 {
		b[i] |= 0x80;
		i += 1;
	}
	b[8] &= 0x7f;
	let e: [u8; E] = kani::any();
	let mut v = b.to_vec();
	v.extend_from_slice(&e);
	let f = VectorTileFeature { id: None, tag_ids: Vec::new(), geom_type: geom_type_of(T), geom_data: Blob::from(v) };
	let g = f.to_geometry();
	let good = g.is_ok();
	std::mem::forget(g);
	std::mem::forget(f);
	kani::cover!(!good);
	kani::cover!(b[8] >= 0x10);
}
vproof! {6, fn c19_feature_geometry_any_2_t1() { feature_geometry_any::<2, 1>(); }}
vproof! {7, fn c19_feature_geometry_any_3_t1() { feature_geometry_any::<3, 1>(); }}
vproof! {7, fn c19_feature_geometry_any_3_t2() { feature_geometry_any::<3, 2>(); }}
vproof! {8, fn c19_feature_geometry_any_4_t1() { feature_geometry_any::<4, 1>(); }}
vproof! {8, fn c19_feature_geometry_any_4_t2() { feature_geometry_any::<4, 2>(); }}
vproof! {10, fn c19_feature_geometry_any_6_t2() { feature_geometry_any::<6, 2>(); }}
vproof! {12, fn c19_feature_geometry_longcmd_0_t1() { feature_geometry_longcmd::<0, 1>(); }}
vproof! {12, fn c19_feature_geometry_longcmd_2_t2() { feature_geometry_longcmd::<2, 2>(); }}

// ---------------------------------------------------------------------------------- C10: add_from_layer
// Two equally named layers, each written by the independent encoder from its own ground truth (own key/value
// tables, possibly the same entries in a different order). After a.add_from_layer(b): features of a then b, ids and
// geometry unchanged, every tag still denotes its ground-truth key and value (through a's tables).
fn check_feature_in<const NK: usize, const NV: usize>(layer: &VectorTileLayer, idx: usize, t: &Truth<NK, NV>) {
	let f = &layer.features[idx];
	assert!(f.id == Some(t.id as u64), "feature id changed by the merge");
	assert!(f.geom_type.as_u64() == t.geom_type as u64, "geometry type changed by the merge");
	assert!(f.geom_data.as_slice().len() == 1 && f.geom_data.as_slice()[0] == t.geom, "geometry bytes changed by the merge");
	assert!(f.tag_ids.len() == 2, "number of tags changed by the merge");
	let k = layer.property_manager.key.list.get(f.tag_ids[0] as usize);
	assert!(k.is_some(), "merged tag key index points past the key table");
	assert!(k.unwrap().as_bytes().len() == 1 && k.unwrap().as_bytes()[0] == t.keys[t.tag.0 as usize], "merged feature has the wrong property key");
	let v = layer.property_manager.val.list.get(f.tag_ids[1] as usize);
	assert!(v.is_some(), "merged tag value index points past the value table");
	assert!(*v.unwrap() == GeoValue::UInt(t.vals[t.tag.1 as usize] as u64), "merged feature has the wrong property value");
}

fn layer_merge<const NK: usize, const NV: usize>() {
	let ta = any_truth::<NK, NV>();
	let tb = any_truth::<NK, NV>();
	let ba = encode_layer(&ta);
	let bb = encode_layer(&tb);
	crate::verif_kani::stubs::set_alloc_limit(ba.len());
	let mut ra = ValueReaderSlice::new_le(&ba);
	let mut rb = ValueReaderSlice::new_le(&bb);
	let mut a = ok(VectorTileLayer::read(&mut ra)).unwrap();
	let b = ok(VectorTileLayer::read(&mut rb)).unwrap();
	let r = ok(a.add_from_layer(b));
	assert!(r.is_some(), "merging two valid layers failed");
	assert!(a.features.len() == 2, "merged layer does not hold the features of both");
	check_feature_in(&a, 0, &ta);
	check_feature_in(&a, 1, &tb);
	kani::cover!(NK < 2 || (ta.keys[0] == tb.keys[1] && ta.keys[1] == tb.keys[0] && ta.keys[0] != ta.keys[1]), "same keys in a different table order");
	kani::cover!(ta.vals[0] != tb.vals[0]);
	std::mem::forget(a);
}

vproof! {8, fn c10_layer_merge_1_1() { layer_merge::<1, 1>(); }}
vproof! {8, fn c10_layer_merge_2_2() { layer_merge::<2, 2>(); }}
