// Kani harnesses for versatiles_geometry (overlay; exists only in the scratch copy)
#![allow(unused_imports, dead_code, clippy::all)]
pub mod stubs;
pub mod vmap;
// c11.rs is mounted inside crate::vector_tile (private sibling modules), see overlay.json
