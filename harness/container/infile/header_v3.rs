// ---- in-file Kani harnesses (overlay): PMTiles v3 header, 127 bytes ----
#[cfg(kani)]
mod kani_harness {
	use super::*;
	use crate::verif_kani::util::*;

	#[kani::proof]
	#[kani::unwind(10)]
	#[kani::stub(std::fmt::format, crate::verif_kani::stubs::fmt_format)]
	#[kani::stub(std::backtrace::Backtrace::capture, crate::verif_kani::stubs::backtrace_capture)]
	fn c19_header_v3_deserialize() {
		let bytes: [u8; 127] = kani::any();
		let blob = Blob::from(bytes.to_vec());
		let r = HeaderV3::deserialize(&blob);
		let good = r.is_ok();
		if let Ok(h) = &r {
			assert!(h.root_dir.offset == le_u64(&bytes, 8) && h.tile_data.length == le_u64(&bytes, 64));
			assert!(h.min_zoom == bytes[100] && h.max_zoom == bytes[101] && h.center_zoom == bytes[118]);
		}
		std::mem::forget(r);
		std::mem::forget(blob);
		kani::cover!(good, "some 127-byte string is a valid header");
		kani::cover!(!good);
	}

	#[kani::proof]
	#[kani::unwind(10)]
	#[kani::stub(std::fmt::format, crate::verif_kani::stubs::fmt_format)]
	#[kani::stub(std::backtrace::Backtrace::capture, crate::verif_kani::stubs::backtrace_capture)]
	fn c19_header_v3_wrong_length() {
		let bytes: [u8; 130] = kani::any();
		let n: usize = kani::any();
		kani::assume(n <= 130 && n != 127);
		let blob = Blob::from(bytes[..n].to_vec());
		let r = HeaderV3::deserialize(&blob);
		assert!(r.is_err());
		std::mem::forget(r);
		std::mem::forget(blob);
		kani::cover!(n == 126);
		kani::cover!(n == 128);
		kani::cover!(n == 3);
	}

	fn any_comp() -> PMTilesCompression {
		let i: u8 = kani::any();
		kani::assume(i <= 4);
		ok(PMTilesCompression::from_u8(i)).unwrap()
	}

	// C01: serialize follows the published 127-byte little-endian layout; deserialize(serialize(h)) = h
	#[kani::proof]
	#[kani::unwind(10)]
	#[kani::stub(std::fmt::format, crate::verif_kani::stubs::fmt_format)]
	#[kani::stub(std::backtrace::Backtrace::capture, crate::verif_kani::stubs::backtrace_capture)]
	fn c01_header_v3_layout() {
		let tt: u8 = kani::any();
		kani::assume(tt <= 5);
		let h = HeaderV3 {
			root_dir: ByteRange::new(kani::any(), kani::any()),
			metadata: ByteRange::new(kani::any(), kani::any()),
			leaf_dirs: ByteRange::new(kani::any(), kani::any()),
			tile_data: ByteRange::new(kani::any(), kani::any()),
			addressed_tiles_count: kani::any(),
			tile_entries_count: kani::any(),
			tile_contents_count: kani::any(),
			clustered: kani::any(),
			internal_compression: any_comp(),
			tile_compression: any_comp(),
			tile_type: ok(PMTilesType::from_u8(tt)).unwrap(),
			min_zoom: kani::any(),
			max_zoom: kani::any(),
			min_lon_e7: kani::any(),
			min_lat_e7: kani::any(),
			max_lon_e7: kani::any(),
			max_lat_e7: kani::any(),
			center_zoom: kani::any(),
			center_lon_e7: kani::any(),
			center_lat_e7: kani::any(),
		};
		let blob = ok(h.serialize()).unwrap();
		let b = blob.as_slice();
		assert!(b.len() == 127, "header is not 127 bytes");
		let magic = b"PMTiles";
		let mut i = 0;
		while i < 7 {
			assert!(b[i] == magic[i], "magic");
			i += 1;
		}
		assert!(b[7] == 3, "version");
		assert!(le_u64(b, 8) == h.root_dir.offset && le_u64(b, 16) == h.root_dir.length, "root directory");
		assert!(le_u64(b, 24) == h.metadata.offset && le_u64(b, 32) == h.metadata.length, "metadata");
		assert!(le_u64(b, 40) == h.leaf_dirs.offset && le_u64(b, 48) == h.leaf_dirs.length, "leaf directories");
		assert!(le_u64(b, 56) == h.tile_data.offset && le_u64(b, 64) == h.tile_data.length, "tile data");
		assert!(le_u64(b, 72) == h.addressed_tiles_count && le_u64(b, 80) == h.tile_entries_count && le_u64(b, 88) == h.tile_contents_count, "counts");
		assert!(b[96] == h.clustered as u8, "clustered");
		assert!(b[97] == h.internal_compression as u8 && b[98] == h.tile_compression as u8 && b[99] == tt, "compression / type codes");
		assert!(b[100] == h.min_zoom && b[101] == h.max_zoom, "zoom");
		assert!(le_u32(b, 102) == h.min_lon_e7 as u32 && le_u32(b, 106) == h.min_lat_e7 as u32, "min position");
		assert!(le_u32(b, 110) == h.max_lon_e7 as u32 && le_u32(b, 114) == h.max_lat_e7 as u32, "max position");
		assert!(b[118] == h.center_zoom && le_u32(b, 119) == h.center_lon_e7 as u32 && le_u32(b, 123) == h.center_lat_e7 as u32, "center");
		let back = ok(HeaderV3::deserialize(&blob));
		assert!(back.is_some(), "reader rejects what the writer produced");
		assert!(back.unwrap() == h, "deserialize(serialize(h)) != h");
		std::mem::forget(blob);
		kani::cover!(h.clustered && tt == 5);
	}

	// C01: codes of the PMTiles spec: compression 1 = none, 2 = gzip, 3 = brotli; types 1 = mvt, 2 = png, 3 = jpeg, 4 = webp, 5 = avif
	#[kani::proof]
	#[kani::unwind(4)]
	#[kani::stub(std::fmt::format, crate::verif_kani::stubs::fmt_format)]
	#[kani::stub(std::backtrace::Backtrace::capture, crate::verif_kani::stubs::backtrace_capture)]
	fn c01_pmtiles_codes() {
		use versatiles_core::types::{TileCompression as TC, TileFormat as TF};
		assert!(ok(PMTilesCompression::from_value(TC::Uncompressed)).unwrap() as u8 == 1);
		assert!(ok(PMTilesCompression::from_value(TC::Gzip)).unwrap() as u8 == 2);
		assert!(ok(PMTilesCompression::from_value(TC::Brotli)).unwrap() as u8 == 3);
		assert!(ok(PMTilesType::from_value(TF::PBF)).unwrap() as u8 == 1);
		assert!(ok(PMTilesType::from_value(TF::PNG)).unwrap() as u8 == 2);
		assert!(ok(PMTilesType::from_value(TF::JPG)).unwrap() as u8 == 3);
		assert!(ok(PMTilesType::from_value(TF::WEBP)).unwrap() as u8 == 4);
		assert!(ok(PMTilesType::from_value(TF::AVIF)).unwrap() as u8 == 5);
		// round trip value -> code -> value for every code the reader accepts
		let c: u8 = kani::any();
		if let Some(pc) = ok(PMTilesCompression::from_u8(c)) {
			if let Some(v) = ok(pc.as_value()) {
				assert!(ok(PMTilesCompression::from_value(v)).unwrap() as u8 == c);
			}
		}
		let t: u8 = kani::any();
		if let Some(pt) = ok(PMTilesType::from_u8(t)) {
			if let Some(v) = ok(pt.as_value()) {
				if t != 0 {
					assert!(ok(PMTilesType::from_value(v)).unwrap() as u8 == t);
				}
			}
		}
		kani::cover!(c == 3 && t == 5);
	}
}
