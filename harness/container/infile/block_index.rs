// ---- in-file Kani harnesses (overlay): versatiles v02 block index ----
#[cfg(kani)]
use crate::verif_kani::vmap::HashMap;

#[cfg(kani)]
mod kani_harness {
	use super::*;
	use crate::verif_kani::util::*;

	/// independent encoder: one 33-byte block record from the v02 layout
	fn encode_block(out: &mut Vec<u8>, z: u8, bx: u32, by: u32, local: [u8; 4], off: u64, tl: u64, il: u32) {
		out.push(z);
		out.extend_from_slice(&bx.to_be_bytes());
		out.extend_from_slice(&by.to_be_bytes());
		out.extend_from_slice(&local);
		out.extend_from_slice(&off.to_be_bytes());
		out.extend_from_slice(&tl.to_be_bytes());
		out.extend_from_slice(&il.to_be_bytes());
	}

	struct Blk {
		z: u8,
		bx: u32,
		by: u32,
		local: [u8; 4],
	}

	fn any_blk() -> Blk {
		let z = any_level();
		let blocks = if z <= 8 { 1u32 } else { 1u32 << (z - 8) };
		let bx: u32 = kani::any();
		let by: u32 = kani::any();
		kani::assume(bx < blocks && by < blocks);
		let local: [u8; 4] = kani::any();
		kani::assume(local[0] <= local[2] && local[1] <= local[3]);
		if z < 8 {
			let m = (1u32 << z) - 1;
			kani::assume(local[2] as u32 <= m && local[3] as u32 <= m);
		}
		Blk { z, bx, by, local }
	}

	// C16/C03: a sparse index with partial blocks written by an independent encoder is decoded exactly
	#[kani::proof]
	#[kani::unwind(36)]
	#[kani::stub(std::fmt::format, crate::verif_kani::stubs::fmt_format)]
	#[kani::stub(std::backtrace::Backtrace::capture, crate::verif_kani::stubs::backtrace_capture)]
	#[kani::stub(u32::pow, crate::verif_kani::stubs::u32_pow)]
	fn c16_block_index_sparse() {
		let a = any_blk();
		let b = any_blk();
		kani::assume(!(a.z == b.z && a.bx == b.bx && a.by == b.by));
		let mut bytes = Vec::with_capacity(66);
		encode_block(&mut bytes, a.z, a.bx, a.by, a.local, 66, 100, 10);
		encode_block(&mut bytes, b.z, b.bx, b.by, b.local, 176, 50, 5);
		let idx = ok(BlockIndex::from_blob(Blob::from(bytes)));
		assert!(idx.is_some(), "a valid sparse block index is rejected");
		let idx = idx.unwrap();
		assert!(idx.len() == 2);
		// lookup finds exactly the encoded blocks
		let ka = TileCoord3 { x: a.bx, y: a.by, z: a.z };
		let ba = idx.get_block(&ka);
		assert!(ba.is_some(), "encoded block not found");
		let ba = ba.unwrap();
		assert!(ba.get_tiles_range().offset == 66 && ba.get_tiles_range().length == 100 && ba.get_index_range().offset == 166 && ba.get_index_range().length == 10);
		let g = ba.get_global_bbox();
		assert!(g.level == a.z && g.x_min == a.bx * 256 + a.local[0] as u32 && g.x_max == a.bx * 256 + a.local[2] as u32);
		assert!(g.y_min == a.by * 256 + a.local[1] as u32 && g.y_max == a.by * 256 + a.local[3] as u32);
		let probe = TileCoord3 { x: kani::any(), y: kani::any(), z: any_level() };
		if !(probe == ka) && !(probe == TileCoord3 { x: b.bx, y: b.by, z: b.z }) {
			assert!(idx.get_block(&probe).is_none(), "lookup finds a block that was not encoded");
		}
		// coverage = union of the block boxes: contains every tile of both, and on a's level is the bounding union
		let pyr = idx.get_bbox_pyramid();
		let (px, py): (u32, u32) = (kani::any(), kani::any());
		if g.x_min <= px && px <= g.x_max && g.y_min <= py && py <= g.y_max {
			assert!(pyr.contains_coord(&TileCoord3 { x: px, y: py, z: a.z }), "coverage misses a stored tile");
		}
		if a.z != b.z {
			assert!(pyr.get_level_bbox(a.z) == g, "coverage of a level with one block differs from that block's box");
		}
		std::mem::forget(idx);
		kani::cover!(a.z == b.z);
		kani::cover!(a.z != b.z && a.z > 8);
	}

	fn blk_at(z: u8) -> Blk {
		let blocks = if z <= 8 { 1u32 } else { 1u32 << (z - 8) };
		let bx: u32 = kani::any();
		let by: u32 = kani::any();
		kani::assume(bx < blocks && by < blocks);
		let local: [u8; 4] = kani::any();
		kani::assume(local[0] <= local[2] && local[1] <= local[3]);
		if z < 8 {
			let m = (1u32 << z) - 1;
			kani::assume(local[2] as u32 <= m && local[3] as u32 <= m);
		}
		Blk { z, bx, by, local }
	}

	// C16: the same, cut down to what finishes: levels concrete per instance, block positions and partial boxes symbolic;
	// acceptance + exact lookup only (coverage is a separate instance)
	fn sparse_accept<const ZA: u8, const ZB: u8, const COVERAGE: bool>() {
		let a = blk_at(ZA);
		let b = blk_at(ZB);
		kani::assume(!(ZA == ZB && a.bx == b.bx && a.by == b.by));
		// byte ranges of the two blocks: anywhere in the file, in any order, possibly shared (the layout does not forbid an
		// encoder that stores identical blocks once)
		let (oa, ta, ia): (u32, u32, u16) = (kani::any(), kani::any(), kani::any());
		let (ob, tb, ib): (u32, u32, u16) = (kani::any(), kani::any(), kani::any());
		let mut bytes = Vec::with_capacity(66);
		encode_block(&mut bytes, a.z, a.bx, a.by, a.local, oa as u64, ta as u64, ia as u32);
		encode_block(&mut bytes, b.z, b.bx, b.by, b.local, ob as u64, tb as u64, ib as u32);
		let idx = ok(BlockIndex::from_blob(Blob::from(bytes)));
		assert!(idx.is_some(), "a valid sparse block index is rejected");
		let idx = idx.unwrap();
		assert!(idx.len() == 2);
		let ka = TileCoord3 { x: a.bx, y: a.by, z: a.z };
		let ba = idx.get_block(&ka);
		assert!(ba.is_some(), "encoded block not found");
		let ba = ba.unwrap();
		assert!(ba.get_tiles_range().offset == oa as u64 && ba.get_tiles_range().length == ta as u64 && ba.get_index_range().offset == oa as u64 + ta as u64 && ba.get_index_range().length == ia as u64);
		let g = ba.get_global_bbox();
		assert!(g.level == a.z && g.x_min == a.bx * 256 + a.local[0] as u32 && g.x_max == a.bx * 256 + a.local[2] as u32);
		assert!(g.y_min == a.by * 256 + a.local[1] as u32 && g.y_max == a.by * 256 + a.local[3] as u32);
		kani::cover!(oa == ob && ta == tb, "two block definitions sharing their bytes");
		if COVERAGE {
			let pyr = idx.get_bbox_pyramid();
			let (px, py): (u32, u32) = (kani::any(), kani::any());
			if g.x_min <= px && px <= g.x_max && g.y_min <= py && py <= g.y_max {
				assert!(pyr.contains_coord(&TileCoord3 { x: px, y: py, z: a.z }), "coverage misses a stored tile");
			}
			if ZA != ZB {
				assert!(pyr.get_level_bbox(a.z) == g, "coverage of a level with one block differs from that block's box");
			}
			std::mem::forget(pyr);
		}
		std::mem::forget(idx);
		kani::cover!(ZA != ZB || a.bx + 1 < b.bx, "blocks that are not neighbours");
	}
	macro_rules! sparse {
		($name:ident, $za:expr, $zb:expr, $cov:expr, $unw:expr) => {
			#[kani::proof]
			#[kani::unwind($unw)]
			#[kani::stub(std::fmt::format, crate::verif_kani::stubs::fmt_format)]
			#[kani::stub(std::backtrace::Backtrace::capture, crate::verif_kani::stubs::backtrace_capture)]
			#[kani::stub(u32::pow, crate::verif_kani::stubs::u32_pow)]
			fn $name() {
				sparse_accept::<$za, $zb, $cov>();
			}
		};
	}
	sparse!(c16_block_index_sparse_accept_12_12, 12, 12, false, 8);
	sparse!(c16_block_index_sparse_accept_5_12, 5, 12, false, 8);
	sparse!(c16_block_index_sparse_accept_31_31, 31, 31, false, 8);
	sparse!(c16_block_index_sparse_coverage_12_12, 12, 12, true, 36);
	sparse!(c16_block_index_sparse_coverage_5_12, 5, 12, true, 36);

	// C19: arbitrary bytes (0, 1, 2 records; odd lengths)
	fn c19_from_blob<const N: usize>() {
		let bytes: [u8; N] = kani::any();
		let r = BlockIndex::from_blob(Blob::from(bytes.to_vec()));
		let good = r.is_ok();
		if N % 33 != 0 {
			assert!(!good);
		}
		std::mem::forget(r);
		kani::cover!(good || N % 33 != 0);
	}
	macro_rules! inst {
		($name:ident, $n:expr, $unw:expr) => {
			#[kani::proof]
			#[kani::unwind($unw)]
			#[kani::stub(std::fmt::format, crate::verif_kani::stubs::fmt_format)]
			#[kani::stub(std::backtrace::Backtrace::capture, crate::verif_kani::stubs::backtrace_capture)]
			#[kani::stub(u32::pow, crate::verif_kani::stubs::u32_pow)]
			fn $name() {
				c19_from_blob::<$n>();
			}
		};
	}
	inst!(c19_block_index_from_blob_0, 0, 4);
	inst!(c19_block_index_from_blob_32, 32, 36);
	inst!(c19_block_index_from_blob_33, 33, 36);
	inst!(c19_block_index_from_blob_66, 66, 70);
	inst!(c19_block_index_from_blob_99, 99, 103);
}
