// ---- in-file Kani harnesses (overlay): versatiles v02 file header, 66 bytes ----
#[cfg(kani)]
mod kani_harness {
	use super::*;
	use crate::verif_kani::util::*;

	const FORMAT_CODES: [(u8, TileFormat); 10] = [
		(0x00, TileFormat::BIN), (0x10, TileFormat::PNG), (0x11, TileFormat::JPG), (0x12, TileFormat::WEBP), (0x13, TileFormat::AVIF),
		(0x14, TileFormat::SVG), (0x20, TileFormat::PBF), (0x21, TileFormat::GEOJSON), (0x22, TileFormat::TOPOJSON), (0x23, TileFormat::JSON),
	];

	fn any_format() -> (u8, TileFormat) {
		let i: usize = kani::any();
		kani::assume(i < 10);
		FORMAT_CODES[i]
	}
	fn any_compression() -> (u8, TileCompression) {
		let i: u8 = kani::any();
		kani::assume(i < 3);
		(i, match i { 0 => TileCompression::Uncompressed, 1 => TileCompression::Gzip, _ => TileCompression::Brotli })
	}

	// C19: every 66-byte string -> Ok or Err; accepted headers carry the bytes of the layout
	#[kani::proof]
	#[kani::unwind(18)]
	#[kani::stub(std::fmt::format, crate::verif_kani::stubs::fmt_format)]
	#[kani::stub(std::backtrace::Backtrace::capture, crate::verif_kani::stubs::backtrace_capture)]
	fn c19_file_header_from_blob() {
		let bytes: [u8; 66] = kani::any();
		let blob = Blob::from(bytes.to_vec());
		let r = FileHeader::from_blob(&blob);
		let good = r.is_ok();
		if let Ok(h) = &r {
			assert!(h.zoom_range[0] == bytes[16] && h.zoom_range[1] == bytes[17]);
			assert!(h.meta_range.offset == be_u64(&bytes, 34) && h.blocks_range.length == be_u64(&bytes, 58));
		}
		std::mem::forget(r);
		std::mem::forget(blob);
		kani::cover!(good, "some 66-byte string is a valid header");
		kani::cover!(!good, "some 66-byte string is rejected");
	}

	// C19: wrong length is an error, never a panic
	#[kani::proof]
	#[kani::unwind(18)]
	#[kani::stub(std::fmt::format, crate::verif_kani::stubs::fmt_format)]
	#[kani::stub(std::backtrace::Backtrace::capture, crate::verif_kani::stubs::backtrace_capture)]
	fn c19_file_header_wrong_length() {
		let bytes: [u8; 70] = kani::any();
		let n: usize = kani::any();
		kani::assume(n <= 70 && n != 66);
		let blob = Blob::from(bytes[..n].to_vec());
		let r = FileHeader::from_blob(&blob);
		assert!(r.is_err(), "a header of the wrong length is accepted");
		std::mem::forget(r);
		std::mem::forget(blob);
		kani::cover!(n == 65);
		kani::cover!(n == 67);
	}

	// C01: to_blob follows the v02 layout for every field value; from_blob(to_blob(h)) = h
	#[kani::proof]
	#[kani::unwind(18)]
	#[kani::stub(std::fmt::format, crate::verif_kani::stubs::fmt_format)]
	#[kani::stub(std::backtrace::Backtrace::capture, crate::verif_kani::stubs::backtrace_capture)]
	fn c01_file_header_layout() {
		let (fc, tile_format) = any_format();
		let (cc, compression) = any_compression();
		let h = FileHeader {
			zoom_range: [kani::any(), kani::any()],
			bbox: [kani::any(), kani::any(), kani::any(), kani::any()],
			tile_format,
			compression,
			meta_range: ByteRange::new(kani::any(), kani::any()),
			blocks_range: ByteRange::new(kani::any(), kani::any()),
		};
		let blob = ok(h.to_blob()).unwrap();
		let b = blob.as_slice();
		assert!(b.len() == 66, "header is not 66 bytes");
		let magic = b"versatiles_v02";
		let mut i = 0;
		while i < 14 {
			assert!(b[i] == magic[i], "magic");
			i += 1;
		}
		assert!(b[14] == fc, "tile format code");
		assert!(b[15] == cc, "compression code");
		assert!(b[16] == h.zoom_range[0] && b[17] == h.zoom_range[1], "zoom range");
		assert!(be_u32(b, 18) == h.bbox[0] as u32 && be_u32(b, 22) == h.bbox[1] as u32 && be_u32(b, 26) == h.bbox[2] as u32 && be_u32(b, 30) == h.bbox[3] as u32, "bbox");
		assert!(be_u64(b, 34) == h.meta_range.offset && be_u64(b, 42) == h.meta_range.length, "meta range");
		assert!(be_u64(b, 50) == h.blocks_range.offset && be_u64(b, 58) == h.blocks_range.length, "blocks range");
		let back = ok(FileHeader::from_blob(&blob));
		assert!(back.is_some(), "reader rejects what the writer produced");
		assert!(back.unwrap() == h, "from_blob(to_blob(h)) != h");
		std::mem::forget(blob);
		kani::cover!(fc == 0x23 && cc == 2);
		kani::cover!(fc == 0x00 && cc == 0);
	}
}
