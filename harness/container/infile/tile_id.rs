// ---- in-file Kani harnesses (overlay): PMTiles Hilbert tile ids ----
#[cfg(kani)]
mod kani_harness {
	use super::*;
	use crate::verif_kani::util::*;

	/// reference: Hilbert curve d = xy2d(n, x, y) as in the PMTiles v3 specification / Wikipedia, plus the sum of 4^i below z
	fn ref_tile_id(z: u8, x: u32, y: u32) -> u64 {
		let mut base: u64 = 0;
		let mut i = 0;
		while i < z {
			base += 1u64 << (2 * i as u32);
			i += 1;
		}
		let n: u64 = 1u64 << z;
		let (mut x, mut y) = (x as u64, y as u64);
		let mut d: u64 = 0;
		let mut s: u64 = n / 2;
		while s > 0 {
			let rx: u64 = if (x & s) > 0 { 1 } else { 0 };
			let ry: u64 = if (y & s) > 0 { 1 } else { 0 };
			d += s * s * ((3 * rx) ^ ry);
			// rotate quadrant
			if ry == 0 {
				if rx == 1 {
					x = (n - 1) - x;
					y = (n - 1) - y;
				}
				std::mem::swap(&mut x, &mut y);
			}
			// keep only the low bits relevant for the next (smaller) square
			x &= n - 1;
			y &= n - 1;
			s /= 2;
		}
		base + d
	}

	fn diff<const Z: u8>() {
		let (x, y): (u32, u32) = (kani::any(), kani::any());
		let n = 1u64 << Z;
		let r = ok(coord_to_tile_id(x, y, Z));
		if (x as u64) < n && (y as u64) < n {
			assert!(r.is_some(), "a valid coordinate has no tile id");
			let id = r.unwrap();
			assert!(id == ref_tile_id(Z, x, y), "tile id differs from the specification's Hilbert id");
			// ids of zoom Z occupy [sum 4^i (i<Z), sum 4^i (i<=Z))
			let base = ((1u128 << (2 * Z as u32)) - 1) / 3;
			assert!(id as u128 >= base && (id as u128) < base + (1u128 << (2 * Z as u32)), "tile id outside the id range of its zoom level");
		} else {
			assert!(r.is_none(), "out-of-range coordinate accepted");
		}
		kani::cover!(r.is_some() && x > 0 && y > 0 || Z == 0);
	}

	fn roundtrip<const Z: u8>() {
		let (x, y): (u32, u32) = (kani::any(), kani::any());
		let n = 1u64 << Z;
		kani::assume((x as u64) < n && (y as u64) < n);
		let id = ok(coord_to_tile_id(x, y, Z)).unwrap();
		let c = ok(tile_id_to_coord(id));
		assert!(c.is_some(), "tile_id_to_coord rejects an id produced by coord_to_tile_id");
		let c = c.unwrap();
		assert!(c.x == x && c.y == y && c.z == Z, "tile_id_to_coord(coord_to_tile_id(c)) != c");
		kani::cover!(x + 1 == n as u32 || Z == 0);
	}

	macro_rules! inst {
		($name:ident, $f:ident, $z:expr, $unw:expr) => {
			#[kani::proof]
			#[kani::unwind($unw)]
			#[kani::stub(std::fmt::format, crate::verif_kani::stubs::fmt_format)]
			#[kani::stub(std::backtrace::Backtrace::capture, crate::verif_kani::stubs::backtrace_capture)]
			fn $name() {
				$f::<$z>();
			}
		};
	}
	inst!(c01_tile_id_diff_z0, diff, 0, 3);
	inst!(c01_tile_id_diff_z1, diff, 1, 4);
	inst!(c01_tile_id_diff_z2, diff, 2, 5);
	inst!(c01_tile_id_diff_z5, diff, 5, 8);
	inst!(c01_tile_id_diff_z8, diff, 8, 11);
	inst!(c01_tile_id_diff_z12, diff, 12, 15);
	inst!(c01_tile_id_diff_z16, diff, 16, 19);
	inst!(c01_tile_id_diff_z24, diff, 24, 27);
	inst!(c01_tile_id_diff_z31, diff, 31, 34);
	inst!(c01_tile_id_roundtrip_z0, roundtrip, 0, 34);
	inst!(c01_tile_id_roundtrip_z1, roundtrip, 1, 34);
	inst!(c01_tile_id_roundtrip_z3, roundtrip, 3, 34);
	inst!(c01_tile_id_roundtrip_z6, roundtrip, 6, 34);
	inst!(c01_tile_id_roundtrip_z10, roundtrip, 10, 34);
	inst!(c01_tile_id_roundtrip_z14, roundtrip, 14, 34);
	inst!(c01_tile_id_roundtrip_z20, roundtrip, 20, 34);
	inst!(c01_tile_id_roundtrip_z31, roundtrip, 31, 34);

	// C19: every u64 id -> coordinate or error; zoom >= 32 and out-of-range coordinates are errors
	#[kani::proof]
	#[kani::unwind(34)]
	#[kani::stub(std::fmt::format, crate::verif_kani::stubs::fmt_format)]
	#[kani::stub(std::backtrace::Backtrace::capture, crate::verif_kani::stubs::backtrace_capture)]
	fn c19_tile_id_to_coord_any() {
		let id: u64 = kani::any();
		let r = ok(tile_id_to_coord(id));
		if let Some(c) = r {
			assert!(c.z <= 31);
			let n = 1u64 << c.z;
			assert!((c.x as u64) < n && (c.y as u64) < n, "decoded coordinate outside its zoom level");
		}
		kani::cover!(r.is_some_and(|c| c.z == 31));
		kani::cover!(r.is_none());
	}

	// C19: ids beyond the last tile of zoom 31 (what an untrusted PMTiles directory can contain) are an error, never a panic.
	// (Valid ids run the Hilbert loop with a symbolic trip count - c19_tile_id_to_coord_any above never finished; they are
	// covered per zoom level by the c01_tile_id_* instances.)
	#[kani::proof]
	#[kani::unwind(34)]
	#[kani::stub(std::fmt::format, crate::verif_kani::stubs::fmt_format)]
	#[kani::stub(std::backtrace::Backtrace::capture, crate::verif_kani::stubs::backtrace_capture)]
	fn c19_tile_id_to_coord_too_large() {
		let id: u64 = kani::any();
		kani::assume(id >= 6148914691236517205); // (4^32 - 1) / 3
		let r = ok(tile_id_to_coord(id));
		assert!(r.is_none(), "an id beyond zoom 31 is decoded");
		kani::cover!(id == u64::MAX);
		kani::cover!(id == 6148914691236517205);
	}

	#[kani::proof]
	#[kani::unwind(4)]
	#[kani::stub(std::fmt::format, crate::verif_kani::stubs::fmt_format)]
	#[kani::stub(std::backtrace::Backtrace::capture, crate::verif_kani::stubs::backtrace_capture)]
	fn c19_coord_to_tile_id_bad_zoom() {
		let (x, y, z): (u32, u32, u8) = (kani::any(), kani::any(), kani::any());
		kani::assume(z >= 32);
		assert!(ok(coord_to_tile_id(x, y, z)).is_none());
		kani::cover!(z == 255);
	}
}
