// ---- in-file Kani harnesses (overlay): versatiles v02 tile index, 12 bytes per tile ----
#[cfg(kani)]
mod kani_harness {
	use super::*;
	use crate::verif_kani::util::*;

	fn c19_from_blob<const N: usize>() {
		let bytes: [u8; N] = kani::any();
		let blob = Blob::from(bytes.to_vec());
		let r = TileIndex::from_blob(blob);
		let good = r.is_ok();
		if let Ok(t) = &r {
			assert!(N % 12 == 0 && t.len() == N / 12);
			let i: usize = kani::any();
			kani::assume(i < N / 12);
			assert!(t.get(i).offset == be_u64(&bytes, i * 12) && t.get(i).length == be_u32(&bytes, i * 12 + 8) as u64);
		} else {
			assert!(N % 12 != 0, "a well-formed tile index is rejected");
		}
		std::mem::forget(r);
		kani::cover!(good || N % 12 != 0);
	}

	macro_rules! inst {
		($name:ident, $n:expr, $unw:expr) => {
			#[kani::proof]
			#[kani::unwind($unw)]
			#[kani::stub(std::fmt::format, crate::verif_kani::stubs::fmt_format)]
			#[kani::stub(std::backtrace::Backtrace::capture, crate::verif_kani::stubs::backtrace_capture)]
			fn $name() {
				c19_from_blob::<$n>();
			}
		};
	}
	inst!(c19_tile_index_from_blob_0, 0, 4);
	inst!(c19_tile_index_from_blob_11, 11, 13);
	inst!(c19_tile_index_from_blob_12, 12, 14);
	inst!(c19_tile_index_from_blob_13, 13, 15);
	inst!(c19_tile_index_from_blob_24, 24, 26);
	inst!(c19_tile_index_from_blob_48, 48, 50);
	inst!(c19_tile_index_from_blob_120, 120, 122);

	// C01: as_blob follows the 12-byte layout, from_blob(as_blob) = id, add_offset undoes the writer's shift
	fn c01_layout<const N: usize>() {
		let mut t = TileIndex::new_empty(N);
		let base: u64 = kani::any();
		kani::assume(base <= u64::MAX / 4);
		let mut i = 0;
		while i < N {
			let off: u64 = kani::any();
			let len: u32 = kani::any();
			kani::assume(off <= u64::MAX / 4);
			t.set(i, ByteRange::new(off, len as u64));
			i += 1;
		}
		let blob = ok(t.as_blob()).unwrap();
		assert!(blob.len() == 12 * N as u64);
		let j: usize = kani::any();
		kani::assume(j < N);
		let b = blob.as_slice();
		assert!(be_u64(b, 12 * j) == t.get(j).offset && be_u32(b, 12 * j + 8) as u64 == t.get(j).length, "12-byte entry layout");
		let want = *t.get(j);
		let mut back = ok(TileIndex::from_blob(blob)).unwrap();
		assert!(back == t, "from_blob(as_blob(t)) != t");
		// the writer stores offsets relative to the block start (shift_backward); the reader adds the block offset back
		back.add_offset(base);
		assert!(back.get(j).offset == want.offset + base && back.get(j).length == want.length);
		let mut r = want;
		r.shift_forward(base);
		r.shift_backward(base);
		assert!(r == want, "shift_forward/shift_backward are not inverse");
		kani::cover!(N > 0);
	}

	macro_rules! inst2 {
		($name:ident, $n:expr, $unw:expr) => {
			#[kani::proof]
			#[kani::unwind($unw)]
			#[kani::stub(std::fmt::format, crate::verif_kani::stubs::fmt_format)]
			#[kani::stub(std::backtrace::Backtrace::capture, crate::verif_kani::stubs::backtrace_capture)]
			fn $name() {
				c01_layout::<$n>();
			}
		};
	}
	inst2!(c01_tile_index_layout_1, 1, 14);
	inst2!(c01_tile_index_layout_2, 2, 26);
	inst2!(c01_tile_index_layout_4, 4, 50);
}
