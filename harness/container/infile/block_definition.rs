// ---- in-file Kani harnesses (overlay): versatiles v02 block definition, 33 bytes ----
#[cfg(kani)]
mod kani_harness {
	use super::*;
	use crate::verif_kani::util::*;

	// C19: from_blob on every 33-byte string ends in Ok or Err
	#[kani::proof]
	#[kani::unwind(10)]
	#[kani::stub(std::fmt::format, crate::verif_kani::stubs::fmt_format)]
	#[kani::stub(std::backtrace::Backtrace::capture, crate::verif_kani::stubs::backtrace_capture)]
	#[kani::stub(u32::pow, crate::verif_kani::stubs::u32_pow)]
	fn c19_block_definition_from_blob() {
		let bytes: [u8; 33] = kani::any();
		let blob = Blob::from(bytes.to_vec());
		let r = BlockDefinition::from_blob(&blob);
		let good = r.is_ok();
		if let Ok(b) = &r {
			// what was accepted is exactly what the layout says
			assert!(b.offset.z == bytes[0] && b.offset.z <= 31);
			assert!(b.offset.x == be_u32(&bytes, 1) && b.offset.y == be_u32(&bytes, 5));
			assert!(b.tiles_range.offset == be_u64(&bytes, 13) && b.tiles_range.length == be_u64(&bytes, 21));
			assert!(b.index_range.length == be_u32(&bytes, 29) as u64);
		}
		std::mem::forget(r);
		std::mem::forget(blob);
		kani::cover!(good, "some 33-byte string is a valid block definition");
		kani::cover!(!good, "some 33-byte string is rejected");
	}

	// C19: short / long buffers
	#[kani::proof]
	#[kani::unwind(10)]
	#[kani::stub(std::fmt::format, crate::verif_kani::stubs::fmt_format)]
	#[kani::stub(std::backtrace::Backtrace::capture, crate::verif_kani::stubs::backtrace_capture)]
	#[kani::stub(u32::pow, crate::verif_kani::stubs::u32_pow)]
	fn c19_block_definition_truncated() {
		let bytes: [u8; 32] = kani::any();
		let n: usize = kani::any();
		kani::assume(n <= 32);
		let blob = Blob::from(bytes[..n].to_vec());
		let r = BlockDefinition::from_blob(&blob);
		assert!(r.is_err(), "a truncated block definition is accepted");
		std::mem::forget(r);
		std::mem::forget(blob);
		kani::cover!(n == 32);
		kani::cover!(n == 0);
	}

	/// a grid cell as the writer produces them: a non-empty box inside one 256x256 block
	fn any_cell() -> TileBBox {
		let level = any_level();
		let max = lvl_max(level);
		let (x0, y0, x1, y1): (u32, u32, u32, u32) = (kani::any(), kani::any(), kani::any(), kani::any());
		kani::assume(x0 <= x1 && y0 <= y1 && x1 <= max && y1 <= max);
		kani::assume(x0 / 256 == x1 / 256 && y0 / 256 == y1 / 256);
		TileBBox { level, max, x_min: x0, y_min: y0, x_max: x1, y_max: y1 }
	}

	// C01: new(cell) + ranges -> as_blob follows the 33-byte layout; from_blob(as_blob) = id; keys agree
	#[kani::proof]
	#[kani::unwind(10)]
	#[kani::stub(std::fmt::format, crate::verif_kani::stubs::fmt_format)]
	#[kani::stub(std::backtrace::Backtrace::capture, crate::verif_kani::stubs::backtrace_capture)]
	#[kani::stub(u32::pow, crate::verif_kani::stubs::u32_pow)]
	fn c01_block_definition_layout() {
		let cell = any_cell();
		let mut def = BlockDefinition::new(&cell);
		let off: u64 = kani::any();
		let tl: u64 = kani::any();
		let il: u32 = kani::any();
		kani::assume(off <= u64::MAX / 4 && tl <= u64::MAX / 4);
		def.set_tiles_range(ByteRange::new(off, tl));
		def.set_index_range(ByteRange::new(off + tl, il as u64));
		let blob = ok(def.as_blob()).unwrap();
		let b = blob.as_slice();
		assert!(b.len() == 33, "block definition is not 33 bytes");
		// independent decoder, straight from the v02 layout
		assert!(b[0] == cell.level, "byte 0 is not the zoom level");
		assert!(be_u32(b, 1) == cell.x_min / 256 && be_u32(b, 5) == cell.y_min / 256, "block column/row");
		assert!(b[9] as u32 == cell.x_min % 256 && b[10] as u32 == cell.y_min % 256, "local min");
		assert!(b[11] as u32 == cell.x_max % 256 && b[12] as u32 == cell.y_max % 256, "local max");
		assert!(be_u64(b, 13) == off && be_u64(b, 21) == tl && be_u32(b, 29) == il, "ranges");
		// the repository's reader gives back the same definition
		let back = ok(BlockDefinition::from_blob(&blob));
		assert!(back.is_some(), "reader rejects what the writer produced");
		let back = back.unwrap();
		assert!(back == def, "from_blob(as_blob(d)) != d");
		assert!(back.get_global_bbox() == &cell, "global box differs from the written cell");
		// the key the writer stores the block under = the key the reader computes for any tile of the cell
		let (px, py): (u32, u32) = (kani::any(), kani::any());
		kani::assume(cell.x_min <= px && px <= cell.x_max && cell.y_min <= py && py <= cell.y_max);
		let key = def.get_coord3();
		assert!(key.x == px >> 8 && key.y == py >> 8 && key.z == cell.level, "block key differs from (x>>8, y>>8, z)");
		assert!(def.count_tiles() == cell.count_tiles());
		std::mem::forget(blob);
		kani::cover!(cell.level == 31 && cell.x_min > (1 << 30));
		kani::cover!(cell.level < 8);
	}
}
