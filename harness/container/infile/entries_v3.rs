// ---- in-file Kani harnesses (overlay): PMTiles v3 directory entries ----
#[cfg(kani)]
mod kani_harness {
	use super::*;
	use crate::verif_kani::util::*;

	// ------------------------------------------------------------------ C19: arbitrary bytes
	fn c19_any<const N: usize>() {
		let bytes: [u8; N] = kani::any();
		let blob = Blob::from(bytes.to_vec());
		let r = EntriesV3::from_blob(&blob);
		let good = r.is_ok();
		std::mem::forget(r);
		std::mem::forget(blob);
		kani::cover!(good || N == 0, "some input decodes");
		kani::cover!(!good || N == 0, "some input is rejected");
	}
	// shape-directed: entry count concrete, the 4 columns (id delta, run length, length, offset) symbolic bytes
	fn c19_count<const COUNT: usize, const BODY: usize>() {
		let body: [u8; BODY] = kani::any();
		let mut v = Vec::with_capacity(BODY + 1);
		v.push(COUNT as u8);
		v.extend_from_slice(&body);
		let blob = Blob::from(v);
		let r = EntriesV3::from_blob(&blob);
		let good = r.is_ok();
		if let Ok(e) = &r {
			assert!(e.len() == COUNT);
		}
		std::mem::forget(r);
		std::mem::forget(blob);
		kani::cover!(good, "some input decodes");
		kani::cover!(!good, "some input is rejected");
	}
	macro_rules! inst {
		($name:ident, $f:ident, [$($g:expr),+], $unw:expr) => {
			#[kani::proof]
			#[kani::unwind($unw)]
			#[kani::stub(std::fmt::format, crate::verif_kani::stubs::fmt_format)]
			#[kani::stub(std::backtrace::Backtrace::capture, crate::verif_kani::stubs::backtrace_capture)]
			fn $name() {
				$f::<$($g),+>();
			}
		};
	}
	inst!(c19_entries_v3_any_0, c19_any, [0], 4);
	inst!(c19_entries_v3_any_1, c19_any, [1], 4);
	inst!(c19_entries_v3_any_2, c19_any, [2], 5);
	inst!(c19_entries_v3_any_3, c19_any, [3], 6);
	inst!(c19_entries_v3_count1_4, c19_count, [1, 4], 7);
	inst!(c19_entries_v3_count1_5, c19_count, [1, 5], 8);
	inst!(c19_entries_v3_count2_8, c19_count, [2, 8], 11);

	// ------------------------------------------------------------------ C16: lookup with run lengths, shared offsets, leaves
	fn any_entries<const N: usize>() -> EntriesV3 {
		let mut entries: Vec<EntryV3> = Vec::with_capacity(N);
		let mut last: u64 = 0;
		let mut i = 0;
		while i < N {
			let id: u64 = kani::any();
			kani::assume(id < (1u64 << 62));
			if i > 0 {
				kani::assume(id > last);
			}
			last = id;
			entries.push(EntryV3::new(id, ByteRange::new(kani::any(), kani::any()), kani::any()));
			i += 1;
		}
		EntriesV3 { entries }
	}

	/// reference lookup, straight from the PMTiles v3 specification (linear search):
	/// the entry with the largest tile_id <= target, if it is a leaf pointer (run_length 0) or target lies in its run
	fn ref_find(e: &EntriesV3, target: u64) -> Option<EntryV3> {
		let mut best: Option<EntryV3> = None;
		let mut i = 0;
		while i < e.entries.len() {
			if e.entries[i].tile_id <= target {
				best = Some(e.entries[i]);
			}
			i += 1;
		}
		match best {
			Some(b) => {
				if b.run_length == 0 || target - b.tile_id < b.run_length as u64 {
					Some(b)
				} else {
					None
				}
			}
			None => None,
		}
	}

	fn c16_find<const N: usize>() {
		let e = any_entries::<N>();
		let target: u64 = kani::any();
		let got = e.find_tile(target);
		let want = ref_find(&e, target);
		assert!(got == want, "find_tile differs from the specification's lookup");
		kani::cover!(N == 0 || got.is_some_and(|g| g.run_length > 1 && g.tile_id < target), "found inside a run");
		kani::cover!(N == 0 || got.is_some_and(|g| g.run_length == 0), "leaf fall-through");
		kani::cover!(got.is_none());
		std::mem::forget(e);
	}
	inst!(c16_find_tile_0, c16_find, [0], 4);
	inst!(c16_find_tile_1, c16_find, [1], 5);
	inst!(c16_find_tile_2, c16_find, [2], 6);
	inst!(c16_find_tile_3, c16_find, [3], 7);
	inst!(c16_find_tile_5, c16_find, [5], 9);
	inst!(c16_find_tile_8, c16_find, [8], 12);
	inst!(c16_find_tile_13, c16_find, [13], 17);
	inst!(c16_find_tile_16, c16_find, [16], 20);

	// ------------------------------------------------------------------ C01/C16: directory layout, independent varint codec
	fn put_varint(out: &mut Vec<u8>, mut v: u64) {
		loop {
			let b = (v & 0x7f) as u8;
			v >>= 7;
			if v == 0 {
				out.push(b);
				return;
			}
			out.push(b | 0x80);
		}
	}
	fn get_varint(b: &[u8], at: &mut usize) -> u64 {
		let mut v: u64 = 0;
		let mut shift = 0;
		loop {
			let byte = b[*at];
			*at += 1;
			v |= ((byte & 0x7f) as u64) << shift;
			if byte & 0x80 == 0 {
				return v;
			}
			shift += 7;
		}
	}

	/// entries as a writer may produce them: sorted ids, fields < 2^(7*VB) (varints of at most VB bytes)
	fn small_entries<const N: usize, const VB: u32>() -> EntriesV3 {
		let e = any_entries::<N>();
		let mut i = 0;
		while i < N {
			let x = &e.entries[i];
			kani::assume(x.tile_id < (1 << (7 * VB)) - 1 && x.range.offset < (1 << (7 * VB)) - 1 && x.range.length < (1 << (7 * VB)) && x.run_length < (1 << (7 * VB)));
			i += 1;
		}
		e
	}

	// C01: serialize_entries follows the v3 directory layout (decoded by an independent varint reader) and from_blob inverts it
	fn c01_serialize<const N: usize, const VB: u32>() {
		let e = small_entries::<N, VB>();
		let blob = ok(e.as_slice().serialize_entries()).unwrap();
		let b = blob.as_slice();
		let mut at = 0usize;
		assert!(get_varint(b, &mut at) == N as u64, "entry count");
		let mut ids = [0u64; N];
		let mut last = 0u64;
		let mut i = 0;
		while i < N {
			last += get_varint(b, &mut at);
			ids[i] = last;
			assert!(ids[i] == e.entries[i].tile_id, "tile id column (delta encoded)");
			i += 1;
		}
		i = 0;
		while i < N {
			assert!(get_varint(b, &mut at) == e.entries[i].run_length as u64, "run length column");
			i += 1;
		}
		i = 0;
		while i < N {
			assert!(get_varint(b, &mut at) == e.entries[i].range.length, "length column");
			i += 1;
		}
		i = 0;
		while i < N {
			let v = get_varint(b, &mut at);
			let off = if v == 0 && i > 0 { e.entries[i - 1].range.offset + e.entries[i - 1].range.length } else { v - 1 };
			assert!(v != 0 || i > 0, "offset 0 is only legal after the first entry");
			assert!(off == e.entries[i].range.offset, "offset column (0 = contiguous, else offset + 1)");
			i += 1;
		}
		assert!(at == b.len(), "trailing bytes after the directory");
		let back = ok(EntriesV3::from_blob(&blob));
		assert!(back.is_some(), "reader rejects what the writer produced");
		assert!(back.unwrap() == e, "from_blob(serialize(e)) != e");
		std::mem::forget(blob);
		kani::cover!(N < 2 || e.entries[1].range.offset == e.entries[0].range.offset + e.entries[0].range.length, "contiguous entries");
		kani::cover!(N < 2 || e.entries[1].range.offset == e.entries[0].range.offset, "shared offset");
	}
	inst!(c01_entries_serialize_1, c01_serialize, [1, 1], 4);
	inst!(c01_entries_serialize_1w, c01_serialize, [1, 2], 5);
	inst!(c01_entries_serialize_2, c01_serialize, [2, 1], 5);
	inst!(c01_entries_serialize_3, c01_serialize, [3, 1], 6);

	// C16: a directory written by an independent encoder (run lengths > 1, shared offsets, leaf entries) is decoded exactly.
	// All fields < 2^7, so every varint is ONE byte and the encoded length is the constant 1 + 4 N (a varint writer with a
	// data-dependent length makes every later buffer operation symbolic; the varint codec itself is decided for all u64 by
	// c11_varint_roundtrip and the multi-byte case by c16_entries_decode_1w).
	fn c16_decode<const N: usize, const VB: u32>() {
		let e = small_entries::<N, VB>();
		let mut out: Vec<u8> = Vec::with_capacity(1 + 8 * N);
		let use_zero: bool = kani::any(); // the encoder may or may not use the "contiguous" shorthand
		if VB == 1 {
			out.push(N as u8);
			let mut last = 0u64;
			let mut i = 0;
			while i < N {
				out.push((e.entries[i].tile_id - last) as u8);
				last = e.entries[i].tile_id;
				i += 1;
			}
			i = 0;
			while i < N {
				out.push(e.entries[i].run_length as u8);
				i += 1;
			}
			i = 0;
			while i < N {
				out.push(e.entries[i].range.length as u8);
				i += 1;
			}
			i = 0;
			while i < N {
				let contiguous = i > 0 && e.entries[i].range.offset == e.entries[i - 1].range.offset + e.entries[i - 1].range.length;
				out.push(if contiguous && use_zero { 0 } else { (e.entries[i].range.offset + 1) as u8 });
				i += 1;
			}
		} else {
			put_varint(&mut out, N as u64);
			let mut last = 0u64;
			let mut i = 0;
			while i < N {
				put_varint(&mut out, e.entries[i].tile_id - last);
				last = e.entries[i].tile_id;
				i += 1;
			}
			i = 0;
			while i < N {
				put_varint(&mut out, e.entries[i].run_length as u64);
				i += 1;
			}
			i = 0;
			while i < N {
				put_varint(&mut out, e.entries[i].range.length);
				i += 1;
			}
			i = 0;
			while i < N {
				let contiguous = i > 0 && e.entries[i].range.offset == e.entries[i - 1].range.offset + e.entries[i - 1].range.length;
				put_varint(&mut out, if contiguous && use_zero { 0 } else { e.entries[i].range.offset + 1 });
				i += 1;
			}
		}
		let blob = Blob::from(out);
		let back = ok(EntriesV3::from_blob(&blob));
		assert!(back.is_some(), "a valid directory is rejected");
		assert!(back.unwrap() == e, "decoded directory differs from the encoded one");
		std::mem::forget(blob);
		kani::cover!(N < 2 || (use_zero && e.entries[1].range.offset == e.entries[0].range.offset + e.entries[0].range.length));
		kani::cover!(e.entries[0].run_length == 0 && e.entries[0].range.offset == 0);
	}
	inst!(c16_entries_decode_1, c16_decode, [1, 1], 4);
	inst!(c16_entries_decode_1w, c16_decode, [1, 2], 5);
	inst!(c16_entries_decode_2, c16_decode, [2, 1], 5);
	inst!(c16_entries_decode_3, c16_decode, [3, 1], 6);
}
