// ---- in-file Kani harnesses (overlay): converting reader, declared compression vs applied pipeline (C04) ----
#[cfg(kani)]
mod kani_harness {
	use super::*;
	use crate::verif_kani::util::*;
	use versatiles_core::utils::{compress, decompress};

	const COMPS: [TileCompression; 3] = [TileCompression::Uncompressed, TileCompression::Gzip, TileCompression::Brotli];

	// For a source of compression SI and a requested compression WI (3 = keep): the reader DECLARES requested-or-source,
	// and the pipeline it applies to every tile turns a stored tile into one that decodes under the declared compression.
	fn declared_vs_applied<const SI: usize, const WI: usize>() {
		let src = COMPS[SI];
		let want: Option<TileCompression> = if WI < 3 { Some(COMPS[WI]) } else { None };
		let force: bool = kani::any();
		// coverage and coordinate transform are irrelevant here (C06): empty pyramid, no flip / swap
		let reader = EchoReader::new(TileBBoxPyramid::new_empty(), src);
		let cp = TilesConverterParameters::new(want, None, force, false, false);
		let conv = ok(TilesConvertReader::new_from_reader(Box::new(reader), cp)).unwrap();
		let declared = conv.reader_parameters.tile_compression;
		assert!(declared == want.unwrap_or(src), "declared compression is neither the requested nor the source one");
		assert!(conv.reader_parameters.tile_format == TileFormat::PBF, "tile format changed");
		let bytes: [u8; 2] = kani::any();
		let payload = Blob::from(bytes.to_vec());
		let stored = ok(compress(payload.clone(), &src)).unwrap();
		let out = match &conv.tile_recompressor {
			Some(r) => ok(r.process_blob(stored)),
			None => Some(stored),
		};
		assert!(out.is_some(), "recompression of a well-formed tile failed");
		let back = ok(decompress(out.unwrap(), &declared));
		assert!(back.is_some(), "tile does not decode under the declared compression");
		assert!(back.unwrap().as_slice() == payload.as_slice(), "payload changed by the converting reader's pipeline");
		kani::cover!(force);
		kani::cover!(!force);
		std::mem::forget(conv);
	}

	macro_rules! inst {
		($name:ident, $si:expr, $wi:expr) => {
			#[kani::proof]
			#[kani::unwind(5)]
			#[kani::stub(std::fmt::format, crate::verif_kani::stubs::fmt_format)]
			#[kani::stub(std::backtrace::Backtrace::capture, crate::verif_kani::stubs::backtrace_capture)]
			#[kani::stub(u32::pow, crate::verif_kani::stubs::u32_pow)]
			#[kani::stub(versatiles_core::utils::compress_gzip, crate::verif_kani::codec::compress_gzip)]
			#[kani::stub(versatiles_core::utils::compress_brotli, crate::verif_kani::codec::compress_brotli)]
			#[kani::stub(versatiles_core::utils::compress_brotli_fast, crate::verif_kani::codec::compress_brotli_fast)]
			#[kani::stub(versatiles_core::utils::decompress_gzip, crate::verif_kani::codec::decompress_gzip)]
			#[kani::stub(versatiles_core::utils::decompress_brotli, crate::verif_kani::codec::decompress_brotli)]
			fn $name() {
				declared_vs_applied::<$si, $wi>();
			}
		};
	}
	inst!(c04_declared_u_keep, 0, 3);
	inst!(c04_declared_g_keep, 1, 3);
	inst!(c04_declared_b_keep, 2, 3);
	inst!(c04_declared_u_g, 0, 1);
	inst!(c04_declared_u_b, 0, 2);
	inst!(c04_declared_g_u, 1, 0);
	inst!(c04_declared_g_g, 1, 1);
	inst!(c04_declared_g_b, 1, 2);
	inst!(c04_declared_b_u, 2, 0);
	inst!(c04_declared_b_g, 2, 1);
	inst!(c04_declared_b_b, 2, 2);
	inst!(c04_declared_u_u, 0, 0);
}

// ---- C06: lookup path of the converting reader, reduced to the transform itself ----
#[cfg(kani)]
mod kani_lookup {
	use super::*;
	use crate::verif_kani::stubs::block_on;
	use crate::verif_kani::util::{any_bbox_at, inb, lvl_max, ok};
	use async_trait::async_trait;

	/// minimal source: a tile exists iff its coordinate lies in `have`; payload = the coordinate (9 bytes)
	#[derive(Debug)]
	struct BoxReader {
		parameters: TilesReaderParameters,
		tilejson: TileJSON,
		have: TileBBox,
	}

	#[async_trait]
	impl TilesReaderTrait for BoxReader {
		fn get_source_name(&self) -> &str {
			"box"
		}
		fn get_container_name(&self) -> &str {
			"box"
		}
		fn get_parameters(&self) -> &TilesReaderParameters {
			&self.parameters
		}
		fn override_compression(&mut self, _c: TileCompression) {}
		fn get_tilejson(&self) -> &TileJSON {
			&self.tilejson
		}
		async fn get_tile_data(&self, c: &TileCoord3) -> Result<Option<Blob>> {
			if c.z == self.have.level && inb(&self.have, c.x, c.y) {
				let mut v = Vec::with_capacity(9);
				v.extend_from_slice(&c.x.to_be_bytes());
				v.extend_from_slice(&c.y.to_be_bytes());
				v.push(c.z);
				Ok(Some(Blob::from(v)))
			} else {
				Ok(None)
			}
		}
	}

	fn lookup<const FLIP: bool, const SWAP: bool, const L: u8>() {
		let have = any_bbox_at(L);
		let pyr = TileBBoxPyramid { level_bbox: std::array::from_fn(|z| TileBBox { level: z as u8, max: lvl_max(z as u8), x_min: 1, y_min: 1, x_max: 0, y_max: 0 }) };
		let rp = TilesReaderParameters::new(TileFormat::PBF, TileCompression::Uncompressed, pyr);
		let reader = BoxReader { parameters: rp.clone(), tilejson: TileJSON::default(), have: have.clone() };
		// the reader as new_from_reader builds it for (flip, swap) without recompression (the coverage computation of
		// new_from_reader is decided separately by c06_h1_coverage)
		let conv = TilesConvertReader {
			reader: Box::new(reader),
			converter_parameters: TilesConverterParameters::new(None, None, false, FLIP, SWAP),
			reader_parameters: rp,
			container_name: String::new(),
			tile_recompressor: None,
			name: String::new(),
		};
		let c = TileCoord3 { x: kani::any(), y: kani::any(), z: L };
		let m = lvl_max(L);
		let got = ok(block_on(conv.get_tile_data(&c)));
		assert!(got.is_some(), "lookup failed");
		let got = got.unwrap();
		// specification: T = swap . flip (flip first); the source tile of c is T^-1(c) = flip(swap(c))
		let want: Option<(u32, u32)> = if c.x > m || c.y > m {
			None
		} else {
			let (mut x, mut y) = (c.x, c.y);
			if SWAP {
				std::mem::swap(&mut x, &mut y);
			}
			if FLIP {
				y = m - y;
			}
			if inb(&have, x, y) {
				Some((x, y))
			} else {
				None
			}
		};
		match (&got, want) {
			(Some(blob), Some((x, y))) => {
				let s = blob.as_slice();
				assert!(s.len() == 9 && s[0..4] == x.to_be_bytes() && s[4..8] == y.to_be_bytes() && s[8] == L, "lookup returns the payload of a different source tile than the pre-image");
			}
			(None, None) => {}
			(Some(_), None) => panic!("lookup returns a tile although the pre-image is not a source tile"),
			(None, Some(_)) => panic!("lookup misses the tile at the pre-image"),
		}
		kani::cover!(want.is_some() && c.x != c.y);
		kani::cover!(want.is_none());
		std::mem::forget(got);
		std::mem::forget(conv);
	}

	macro_rules! inst {
		($name:ident, $f:expr, $s:expr, $l:expr) => {
			#[kani::proof]
			#[kani::unwind(34)]
			#[kani::stub(std::fmt::format, crate::verif_kani::stubs::fmt_format)]
			#[kani::stub(std::backtrace::Backtrace::capture, crate::verif_kani::stubs::backtrace_capture)]
			#[kani::stub(u32::pow, crate::verif_kani::stubs::u32_pow)]
			fn $name() {
				lookup::<$f, $s, $l>();
			}
		};
	}
	inst!(c06_lookup_plain_l3, false, false, 3);
	inst!(c06_lookup_flip_l3, true, false, 3);
	inst!(c06_lookup_swap_l3, false, true, 3);
	inst!(c06_lookup_flip_swap_l3, true, true, 3);
	inst!(c06_lookup_flip_swap_l31, true, true, 31);
}
