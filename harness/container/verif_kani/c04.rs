// C04 — recompression changes only the encoding, never the payload (codec model: lossless codecs).
use super::stubs::block_on;
use super::util::*;
use crate::tile_converter::TileConverter;
use crate::{TilesConvertReader, TilesConverterParameters};
use versatiles_core::types::*;
use versatiles_core::utils::{compress, decompress, recompress};

fn any_payload() -> Blob {
	let n: usize = kani::any();
	kani::assume(n <= 3);
	let bytes: [u8; 3] = kani::any();
	Blob::from(bytes[..n].to_vec())
}

const COMPS: [TileCompression; 3] = [TileCompression::Uncompressed, TileCompression::Gzip, TileCompression::Brotli];

macro_rules! codec_stubs {
	($(#[$m:meta])* fn $name:ident() $body:block) => {
		#[kani::proof]
		#[kani::stub(std::fmt::format, crate::verif_kani::stubs::fmt_format)]
		#[kani::stub(std::backtrace::Backtrace::capture, crate::verif_kani::stubs::backtrace_capture)]
		#[kani::stub(u32::pow, crate::verif_kani::stubs::u32_pow)]
		#[kani::stub(versatiles_core::utils::compress_gzip, crate::verif_kani::codec::compress_gzip)]
		#[kani::stub(versatiles_core::utils::compress_brotli, crate::verif_kani::codec::compress_brotli)]
		#[kani::stub(versatiles_core::utils::compress_brotli_fast, crate::verif_kani::codec::compress_brotli_fast)]
		#[kani::stub(versatiles_core::utils::decompress_gzip, crate::verif_kani::codec::decompress_gzip)]
		#[kani::stub(versatiles_core::utils::decompress_brotli, crate::verif_kani::codec::decompress_brotli)]
		$(#[$m])*
		fn $name() $body
	};
}

// H1: the recompressor built from (src, dst, force): decoding its output under dst gives the source payload
codec_stubs! {
	#[kani::unwind(8)]
	fn c04_h1_recompressor() {
		let payload = any_payload();
		let mut si = 0;
		while si < 3 {
			let mut di = 0;
			while di < 3 {
				let mut fi = 0;
				while fi < 2 {
					let (src, dst, force) = (COMPS[si], COMPS[di], fi == 1);
					let stored = ok(compress(payload.clone(), &src)).unwrap();
					let conv = ok(TileConverter::new_tile_recompressor(&src, &dst, force)).unwrap();
					assert!(conv.is_empty() == (!force && src == dst), "pipeline must be empty exactly when nothing has to be done");
					let out = ok(conv.process_blob(stored.clone()));
					assert!(out.is_some(), "recompression of a well-formed tile failed");
					let back = ok(decompress(out.unwrap(), &dst));
					assert!(back.is_some() && back.unwrap().as_slice() == payload.as_slice(), "payload changed by recompression");
					std::mem::forget(conv);
					fi += 1;
				}
				di += 1;
			}
			si += 1;
		}
		kani::cover!(payload.len() == 3);
		kani::cover!(payload.len() == 0);
	}
}

// H2: utils::recompress / compress / decompress dispatch
codec_stubs! {
	#[kani::unwind(8)]
	fn c04_h2_dispatch() {
		let payload = any_payload();
		let mut si = 0;
		while si < 3 {
			let mut di = 0;
			while di < 3 {
				let (src, dst) = (COMPS[si], COMPS[di]);
				let stored = ok(compress(payload.clone(), &src)).unwrap();
				let back0 = ok(decompress(stored.clone(), &src));
				assert!(back0.is_some() && back0.unwrap().as_slice() == payload.as_slice(), "decompress(compress(p)) != p");
				let out = ok(recompress(stored, &src, &dst));
				assert!(out.is_some(), "recompress failed on a well-formed tile");
				let back = ok(decompress(out.unwrap(), &dst));
				assert!(back.is_some() && back.unwrap().as_slice() == payload.as_slice(), "payload changed by recompress");
				di += 1;
			}
			si += 1;
		}
		kani::cover!(payload.len() == 2);
	}
}

// H4: decompressor
codec_stubs! {
	#[kani::unwind(8)]
	fn c04_h4_decompressor() {
		let payload = any_payload();
		let mut si = 0;
		while si < 3 {
			let src = COMPS[si];
			let stored = ok(compress(payload.clone(), &src)).unwrap();
			let conv = TileConverter::new_decompressor(&src);
			let out = ok(conv.process_blob(stored));
			assert!(out.is_some() && out.unwrap().as_slice() == payload.as_slice(), "decompressor does not return the payload");
			std::mem::forget(conv);
			si += 1;
		}
		kani::cover!(payload.len() == 1);
	}
}

// H3: converting reader: declared compression = requested-or-source; the tile decodes under the DECLARED compression to the source payload
codec_stubs! {
	#[kani::unwind(34)]
	fn c04_h3_convert_reader() {
		let level = any_level();
		let (pyr, src_box) = one_level_pyramid(level);
		let src = any_compression();
		let want_comp: Option<TileCompression> = if kani::any() { Some(any_compression()) } else { None };
		let force: bool = kani::any();
		let reader = EchoReader::new(pyr, src);
		let cp = TilesConverterParameters::new(want_comp, None, force, false, false);
		let conv = ok(TilesConvertReader::new_from_reader(Box::new(reader), cp)).unwrap();
		let declared = conv.get_parameters().tile_compression;
		assert!(declared == want_comp.unwrap_or(src), "declared compression is neither the requested nor the source one");
		assert!(conv.get_parameters().tile_format == TileFormat::PBF, "tile format changed");
		let c = TileCoord3 { x: kani::any(), y: kani::any(), z: level };
		kani::assume(inb(&src_box, c.x, c.y));
		let got = ok(block_on(conv.get_tile_data(&c)));
		assert!(got.is_some(), "lookup failed");
		let blob = got.unwrap();
		assert!(blob.is_some(), "tile of the source is missing");
		let back = ok(decompress(blob.unwrap(), &declared));
		assert!(back.is_some(), "tile does not decode under the declared compression");
		assert!(payload_coord(&back.unwrap()) == Some(c), "payload changed");
		kani::cover!(want_comp.is_some() && want_comp != Some(src));
		kani::cover!(force && want_comp.is_none());
		std::mem::forget(conv);
	}
}
