// C04 — recompression changes only the encoding, never the payload (codec model: lossless codecs).
use super::stubs::block_on;
use super::util::*;
use crate::tile_converter::TileConverter;
use crate::{TilesConvertReader, TilesConverterParameters};
use versatiles_core::types::*;
use versatiles_core::utils::{compress, decompress, recompress};

/// payload of a concrete length (symbolic lengths make every buffer operation of the codec model data-dependent)
fn any_payload() -> Blob {
	let bytes: [u8; 2] = kani::any();
	Blob::from(bytes.to_vec())
}

const COMPS: [TileCompression; 3] = [TileCompression::Uncompressed, TileCompression::Gzip, TileCompression::Brotli];

macro_rules! codec_stubs {
	($(#[$m:meta])* fn $name:ident() $body:block) => {
		#[kani::proof]
		#[kani::stub(std::fmt::format, crate::verif_kani::stubs::fmt_format)]
		#[kani::stub(std::backtrace::Backtrace::capture, crate::verif_kani::stubs::backtrace_capture)]
		#[kani::stub(u32::pow, crate::verif_kani::stubs::u32_pow)]
		#[kani::stub(versatiles_core::utils::compress_gzip, crate::verif_kani::codec::compress_gzip)]
		#[kani::stub(versatiles_core::utils::compress_brotli, crate::verif_kani::codec::compress_brotli)]
		#[kani::stub(versatiles_core::utils::compress_brotli_fast, crate::verif_kani::codec::compress_brotli_fast)]
		#[kani::stub(versatiles_core::utils::decompress_gzip, crate::verif_kani::codec::decompress_gzip)]
		#[kani::stub(versatiles_core::utils::decompress_brotli, crate::verif_kani::codec::decompress_brotli)]
		$(#[$m])*
		fn $name() $body
	};
}

/// one (source, target) pair, both force values, symbolic 2-byte payload
fn recompress_pair<const SI: usize, const DI: usize>() {
	let payload = any_payload();
	let (src, dst) = (COMPS[SI], COMPS[DI]);
	let stored = ok(compress(payload.clone(), &src)).unwrap();
	// H1: the recompressor built from (src, dst, force)
	let mut fi = 0;
	while fi < 2 {
		let force = fi == 1;
		let conv = ok(TileConverter::new_tile_recompressor(&src, &dst, force)).unwrap();
		let nothing_to_do = (!force && src == dst) || (src == TileCompression::Uncompressed && dst == TileCompression::Uncompressed);
		assert!(conv.is_empty() == nothing_to_do, "pipeline must be empty exactly when nothing has to be done");
		let out = ok(conv.process_blob(stored.clone()));
		assert!(out.is_some(), "recompression of a well-formed tile failed");
		let back = ok(decompress(out.unwrap(), &dst));
		assert!(back.is_some() && back.unwrap().as_slice() == payload.as_slice(), "payload changed by recompression");
		std::mem::forget(conv);
		fi += 1;
	}
	// H2: utils::compress / decompress / recompress dispatch
	let back0 = ok(decompress(stored.clone(), &src));
	assert!(back0.is_some() && back0.unwrap().as_slice() == payload.as_slice(), "decompress(compress(p)) != p");
	let out = ok(recompress(stored.clone(), &src, &dst));
	assert!(out.is_some(), "recompress failed on a well-formed tile");
	let back = ok(decompress(out.unwrap(), &dst));
	assert!(back.is_some() && back.unwrap().as_slice() == payload.as_slice(), "payload changed by recompress");
	// H4: decompressor
	let dconv = TileConverter::new_decompressor(&src);
	let plain = ok(dconv.process_blob(stored));
	assert!(plain.is_some() && plain.unwrap().as_slice() == payload.as_slice(), "decompressor does not return the payload");
	std::mem::forget(dconv);
	kani::cover!(payload.as_slice()[0] == 0x1f, "payload that looks like a codec tag");
}

macro_rules! pair {
	($name:ident, $si:expr, $di:expr) => {
		codec_stubs! {
			#[kani::unwind(5)]
			fn $name() { recompress_pair::<$si, $di>(); }
		}
	};
}
pair!(c04_recompress_u_u, 0, 0);
pair!(c04_recompress_u_g, 0, 1);
pair!(c04_recompress_u_b, 0, 2);
pair!(c04_recompress_g_u, 1, 0);
pair!(c04_recompress_g_g, 1, 1);
pair!(c04_recompress_g_b, 1, 2);
pair!(c04_recompress_b_u, 2, 0);
pair!(c04_recompress_b_g, 2, 1);
pair!(c04_recompress_b_b, 2, 2);

// H3: converting reader: declared compression = requested-or-source; the tile decodes under the DECLARED compression
// to the source payload. Source and requested compression concrete per instance (they decide buffer lengths), force symbolic.
fn convert_reader<const SI: usize, const WI: usize>() {
	let level = any_level();
	let (pyr, src_box) = one_level_pyramid(level);
	let src = COMPS[SI];
	let want_comp: Option<TileCompression> = if WI < 3 { Some(COMPS[WI]) } else { None };
	let force: bool = kani::any();
	let reader = EchoReader::new(pyr, src);
	let cp = TilesConverterParameters::new(want_comp, None, force, false, false);
	let conv = ok(TilesConvertReader::new_from_reader(Box::new(reader), cp)).unwrap();
	let declared = conv.get_parameters().tile_compression;
	assert!(declared == want_comp.unwrap_or(src), "declared compression is neither the requested nor the source one");
	assert!(conv.get_parameters().tile_format == TileFormat::PBF, "tile format changed");
	let c = TileCoord3 { x: kani::any(), y: kani::any(), z: level };
	kani::assume(inb(&src_box, c.x, c.y));
	let got = ok(block_on(conv.get_tile_data(&c)));
	assert!(got.is_some(), "lookup failed");
	let blob = got.unwrap();
	assert!(blob.is_some(), "tile of the source is missing");
	let back = ok(decompress(blob.unwrap(), &declared));
	assert!(back.is_some(), "tile does not decode under the declared compression");
	assert!(payload_coord(&back.unwrap()) == Some(c), "payload changed");
	kani::cover!(force);
	kani::cover!(!force);
	std::mem::forget(conv);
}

macro_rules! conv {
	($name:ident, $si:expr, $wi:expr) => {
		codec_stubs! {
			#[kani::unwind(3)]
			fn $name() { convert_reader::<$si, $wi>(); }
		}
	};
}
conv!(c04_convert_reader_u_keep, 0, 3);
conv!(c04_convert_reader_g_keep, 1, 3);
conv!(c04_convert_reader_u_g, 0, 1);
conv!(c04_convert_reader_g_b, 1, 2);
conv!(c04_convert_reader_b_u, 2, 0);
conv!(c04_convert_reader_b_b, 2, 2);
