#![allow(dead_code)]
use versatiles_core::types::*;

pub fn ok<T>(r: anyhow::Result<T>) -> Option<T> {
	match r {
		Ok(v) => Some(v),
		Err(e) => {
			std::mem::forget(e);
			None
		}
	}
}

pub fn any_level() -> u8 {
	let l: u8 = kani::any();
	kani::assume(l <= 31);
	l
}

pub fn lvl_max(level: u8) -> u32 {
	((1u64 << level) - 1) as u32
}

/// big-endian readers written from the published layouts (independent of the repository's ValueReader)
pub fn be_u32(b: &[u8], at: usize) -> u32 {
	((b[at] as u32) << 24) | ((b[at + 1] as u32) << 16) | ((b[at + 2] as u32) << 8) | (b[at + 3] as u32)
}
pub fn be_u64(b: &[u8], at: usize) -> u64 {
	((be_u32(b, at) as u64) << 32) | (be_u32(b, at + 4) as u64)
}
pub fn le_u32(b: &[u8], at: usize) -> u32 {
	(b[at] as u32) | ((b[at + 1] as u32) << 8) | ((b[at + 2] as u32) << 16) | ((b[at + 3] as u32) << 24)
}
pub fn le_u64(b: &[u8], at: usize) -> u64 {
	(le_u32(b, at) as u64) | ((le_u32(b, at + 4) as u64) << 32)
}

// ------------------------------------------------------------------------------------------------
// Echo source: has a tile exactly where its advertised pyramid says, and the payload of a tile is its own
// coordinate (9 bytes), so the oracle can read off which source tile a result came from.
// ------------------------------------------------------------------------------------------------
use async_trait::async_trait;
use versatiles_core::tilejson::TileJSON;

pub fn coord_payload(c: &TileCoord3) -> Blob {
	let mut v = Vec::with_capacity(9);
	v.extend_from_slice(&c.x.to_be_bytes());
	v.extend_from_slice(&c.y.to_be_bytes());
	v.push(c.z);
	Blob::from(v)
}

pub fn payload_coord(b: &Blob) -> Option<TileCoord3> {
	let s = b.as_slice();
	if s.len() != 9 {
		return None;
	}
	Some(TileCoord3 { x: be_u32(s, 0), y: be_u32(s, 4), z: s[8] })
}

pub static mut LAST_LOOKUP: Option<TileCoord3> = None;
pub static mut LAST_STREAM_BBOX: Option<TileBBox> = None;

#[derive(Debug)]
pub struct EchoReader {
	pub parameters: TilesReaderParameters,
	pub tilejson: TileJSON,
	/// compression the payload is wrapped in (codec model tags), to exercise recompression
	pub wrap: TileCompression,
}

impl EchoReader {
	pub fn new(pyramid: TileBBoxPyramid, compression: TileCompression) -> Self {
		EchoReader {
			parameters: TilesReaderParameters::new(TileFormat::PBF, compression, pyramid),
			tilejson: TileJSON::default(),
			wrap: compression,
		}
	}
	pub fn has(&self, c: &TileCoord3) -> bool {
		self.parameters.bbox_pyramid.contains_coord(c)
	}
	pub fn stored(&self, c: &TileCoord3) -> Blob {
		let p = coord_payload(c);
		match self.wrap {
			TileCompression::Uncompressed => p,
			TileCompression::Gzip => super::codec::compress_gzip(&p).unwrap(),
			TileCompression::Brotli => super::codec::compress_brotli(&p).unwrap(),
		}
	}
}

#[async_trait]
impl TilesReaderTrait for EchoReader {
	fn get_source_name(&self) -> &str {
		"echo"
	}
	fn get_container_name(&self) -> &str {
		"echo"
	}
	fn get_parameters(&self) -> &TilesReaderParameters {
		&self.parameters
	}
	fn override_compression(&mut self, tile_compression: TileCompression) {
		self.parameters.tile_compression = tile_compression;
	}
	fn get_tilejson(&self) -> &TileJSON {
		&self.tilejson
	}
	async fn get_tile_data(&self, coord: &TileCoord3) -> anyhow::Result<Option<Blob>> {
		unsafe { LAST_LOOKUP = Some(*coord) };
		if self.has(coord) {
			Ok(Some(self.stored(coord)))
		} else {
			Ok(None)
		}
	}
	async fn get_bbox_tile_stream(&self, bbox: TileBBox) -> TileStream {
		unsafe { LAST_STREAM_BBOX = Some(bbox.clone()) };
		let mut v: Vec<(TileCoord3, Blob)> = Vec::new();
		let lb = self.parameters.bbox_pyramid.get_level_bbox(bbox.level);
		let mut b = bbox.clone();
		if ok(b.intersect_bbox(lb)).is_some() && !b.is_empty() {
			let mut y = b.y_min;
			while y <= b.y_max {
				let mut x = b.x_min;
				while x <= b.x_max {
					let c = TileCoord3 { x, y, z: b.level };
					v.push((c, self.stored(&c)));
					x += 1;
				}
				y += 1;
			}
		}
		TileStream::from_vec(v)
	}
}

/// pyramid with one symbolic valid box at one symbolic level, all other levels empty
pub fn any_bbox_at(level: u8) -> TileBBox {
	let max = lvl_max(level);
	let b = TileBBox { level, max, x_min: kani::any(), y_min: kani::any(), x_max: kani::any(), y_max: kani::any() };
	kani::assume(b.x_max <= max && b.y_max <= max && b.x_min as u64 <= max as u64 + 1 && b.y_min as u64 <= max as u64 + 1);
	b
}

pub fn one_level_pyramid(level: u8) -> (TileBBoxPyramid, TileBBox) {
	let b = any_bbox_at(level);
	let mut p = TileBBoxPyramid::new_empty();
	p.set_level_bbox(b.clone());
	(p, b)
}

pub fn inb(b: &TileBBox, x: u32, y: u32) -> bool {
	b.x_min <= x && x <= b.x_max && b.y_min <= y && y <= b.y_max
}

pub fn any_compression() -> TileCompression {
	let i: u8 = kani::any();
	kani::assume(i < 3);
	match i {
		0 => TileCompression::Uncompressed,
		1 => TileCompression::Gzip,
		_ => TileCompression::Brotli,
	}
}

/// decode a stored blob under a declared compression, with the (stubbed) public codec functions
pub fn decode_as(b: &Blob, c: TileCompression) -> Option<Blob> {
	ok(versatiles_core::utils::decompress(b.clone(), &c))
}
