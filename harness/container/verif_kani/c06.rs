// C06 — the converting reader selects and relocates tiles exactly as the options say.
// Specification: T = swap . flip (flip first):  T(x, y) = (M - y, x) with both flags;  pre-image T^-1(c) = flip(swap(c)).
use super::stubs::block_on;
use super::util::*;
use crate::{TilesConvertReader, TilesConverterParameters};
use versatiles_core::types::*;

/// pre-image of an output coordinate, written independently of the repository's TransformCoord
fn preimage(c: &TileCoord3, flip: bool, swap: bool) -> Option<TileCoord3> {
	let m = lvl_max(c.z);
	if c.x > m || c.y > m {
		return None;
	}
	let (mut x, mut y) = (c.x, c.y);
	if swap {
		std::mem::swap(&mut x, &mut y);
	}
	if flip {
		y = m - y;
	}
	Some(TileCoord3 { x, y, z: c.z })
}

struct Setup {
	conv: TilesConvertReader,
	src_box: TileBBox,
	req_box: Option<TileBBox>,
	level: u8,
	flip: bool,
	swap: bool,
}

fn setup() -> Setup {
	setup_flags(kani::any(), kani::any())
}

fn setup_flags(flip: bool, swap: bool) -> Setup {
	let level = any_level();
	let (pyr, src_box) = one_level_pyramid(level);
	let with_req: bool = kani::any();
	let (req, req_box) = if with_req {
		let (p, b) = one_level_pyramid(level);
		(Some(p), Some(b))
	} else {
		(None, None)
	};
	let reader = EchoReader::new(pyr, TileCompression::Uncompressed);
	let cp = TilesConverterParameters::new(None, req, false, flip, swap);
	let conv = ok(TilesConvertReader::new_from_reader(Box::new(reader), cp)).unwrap();
	Setup { conv, src_box, req_box, level, flip, swap }
}

/// c is in the output selection and its pre-image is a source tile
fn expected(s: &Setup, c: &TileCoord3) -> Option<TileCoord3> {
	if c.z != s.level {
		return None;
	}
	let p = preimage(c, s.flip, s.swap)?;
	if !inb(&s.src_box, p.x, p.y) {
		return None;
	}
	if let Some(r) = &s.req_box {
		if !inb(r, c.x, c.y) {
			return None;
		}
	}
	Some(p)
}

// H1: advertised coverage = { c | c in requested, T^-1(c) in source }
#[kani::proof]
#[kani::unwind(6)]
#[kani::stub(std::fmt::format, crate::verif_kani::stubs::fmt_format)]
#[kani::stub(std::backtrace::Backtrace::capture, crate::verif_kani::stubs::backtrace_capture)]
#[kani::stub(u32::pow, crate::verif_kani::stubs::u32_pow)]
#[kani::stub(versatiles_core::utils::compress_gzip, crate::verif_kani::codec::compress_gzip)]
#[kani::stub(versatiles_core::utils::compress_brotli, crate::verif_kani::codec::compress_brotli)]
#[kani::stub(versatiles_core::utils::compress_brotli_fast, crate::verif_kani::codec::compress_brotli_fast)]
#[kani::stub(versatiles_core::utils::decompress_gzip, crate::verif_kani::codec::decompress_gzip)]
#[kani::stub(versatiles_core::utils::decompress_brotli, crate::verif_kani::codec::decompress_brotli)]
fn c06_h1_coverage() {
	let s = setup();
	let c = TileCoord3 { x: kani::any(), y: kani::any(), z: any_level() };
	let adv = s.conv.get_parameters().bbox_pyramid.contains_coord(&c);
	assert!(adv == expected(&s, &c).is_some(), "advertised coverage differs from the set of c with c in the selection and the pre-image in the source");
	kani::cover!(adv && s.flip && s.swap && c.x != c.y);
	kani::cover!(!adv && s.req_box.is_some() && c.z == s.level);
	std::mem::forget(s);
}

// H2: lookup returns exactly the source tile at the pre-image; never panics.
// Flags and zoom level concrete per instance (a symbolic level turns all 32 pyramid levels into symbolic data and the
// query ran out of memory at 48 GB); boxes and the requested coordinate are symbolic.
fn lookup<const FLIP: bool, const SWAP: bool, const L: u8>() {
	let src_box = any_bbox_at(L);
	let mut pyr = TileBBoxPyramid::new_empty();
	pyr.level_bbox[L as usize] = src_box.clone();
	let reader = EchoReader::new(pyr, TileCompression::Uncompressed);
	let cp = TilesConverterParameters::new(None, None, false, FLIP, SWAP);
	let conv = ok(TilesConvertReader::new_from_reader(Box::new(reader), cp)).unwrap();
	let s = Setup { conv, src_box, req_box: None, level: L, flip: FLIP, swap: SWAP };
	let c = TileCoord3 { x: kani::any(), y: kani::any(), z: L };
	let got = ok(block_on(s.conv.get_tile_data(&c)));
	assert!(got.is_some(), "lookup failed");
	let got = got.unwrap();
	let want = expected(&s, &c);
	match (&got, &want) {
		(Some(blob), Some(p)) => {
			let from = payload_coord(blob);
			assert!(from == Some(*p), "lookup returns the payload of a different source tile than the pre-image");
		}
		(None, None) => {}
		(Some(_), None) => panic!("lookup returns a tile outside the selection / without a source tile at the pre-image"),
		(None, Some(_)) => panic!("lookup misses a tile that the selection contains"),
	}
	kani::cover!(want.is_some() && c.x != c.y);
	kani::cover!(want.is_none());
	std::mem::forget(got);
	std::mem::forget(s);
}

macro_rules! lookup_inst {
	($name:ident, $f:expr, $s:expr, $l:expr) => {
		#[kani::proof]
		#[kani::unwind(3)]
		#[kani::stub(std::fmt::format, crate::verif_kani::stubs::fmt_format)]
		#[kani::stub(std::backtrace::Backtrace::capture, crate::verif_kani::stubs::backtrace_capture)]
		#[kani::stub(u32::pow, crate::verif_kani::stubs::u32_pow)]
		#[kani::stub(versatiles_core::utils::compress_gzip, crate::verif_kani::codec::compress_gzip)]
		#[kani::stub(versatiles_core::utils::compress_brotli, crate::verif_kani::codec::compress_brotli)]
		#[kani::stub(versatiles_core::utils::compress_brotli_fast, crate::verif_kani::codec::compress_brotli_fast)]
		#[kani::stub(versatiles_core::utils::decompress_gzip, crate::verif_kani::codec::decompress_gzip)]
		#[kani::stub(versatiles_core::utils::decompress_brotli, crate::verif_kani::codec::decompress_brotli)]
		fn $name() {
			lookup::<$f, $s, $l>();
		}
	};
}
lookup_inst!(c06_h2_lookup_plain_l3, false, false, 3);
lookup_inst!(c06_h2_lookup_flip_l3, true, false, 3);
lookup_inst!(c06_h2_lookup_swap_l3, false, true, 3);
lookup_inst!(c06_h2_lookup_flip_swap_l3, true, true, 3);
lookup_inst!(c06_h2_lookup_flip_swap_l31, true, true, 31);

// H3: stream over a box (at most 2x2) = the lookups inside it; the source is asked for the pre-image box
#[kani::proof]
#[kani::unwind(6)]
#[kani::stub(std::fmt::format, crate::verif_kani::stubs::fmt_format)]
#[kani::stub(std::backtrace::Backtrace::capture, crate::verif_kani::stubs::backtrace_capture)]
#[kani::stub(u32::pow, crate::verif_kani::stubs::u32_pow)]
#[kani::stub(versatiles_core::utils::compress_gzip, crate::verif_kani::codec::compress_gzip)]
#[kani::stub(versatiles_core::utils::compress_brotli, crate::verif_kani::codec::compress_brotli)]
#[kani::stub(versatiles_core::utils::compress_brotli_fast, crate::verif_kani::codec::compress_brotli_fast)]
#[kani::stub(versatiles_core::utils::decompress_gzip, crate::verif_kani::codec::decompress_gzip)]
#[kani::stub(versatiles_core::utils::decompress_brotli, crate::verif_kani::codec::decompress_brotli)]
#[kani::stub(versatiles_core::types::TileStream::map_blob_parallel, crate::verif_kani::c06::map_blob_sequential)]
fn c06_h3_stream() {
	let s = setup();
	let q = any_bbox_at(s.level);
	kani::assume(q.width() <= 2 && q.height() <= 2);
	let items = block_on(block_on(s.conv.get_bbox_tile_stream(q.clone())).collect());
	// every delivered pair is (c, payload of T^-1(c)) with c inside the requested box and the selection
	let mut i = 0;
	while i < items.len() {
		let (c, blob) = &items[i];
		assert!(c.z == s.level && inb(&q, c.x, c.y), "stream delivers a tile outside the requested box");
		let want = expected(&s, c);
		assert!(want.is_some(), "stream delivers a tile outside the selection");
		assert!(payload_coord(blob) == want, "stream pairs a coordinate with the payload of a different source tile");
		let mut j = i + 1;
		while j < items.len() {
			assert!(!(items[j].0 == *c), "stream delivers a tile twice");
			j += 1;
		}
		i += 1;
	}
	// and nothing is missing: a symbolic tile of the box that is expected is delivered
	let c = TileCoord3 { x: kani::any(), y: kani::any(), z: s.level };
	if inb(&q, c.x, c.y) && expected(&s, &c).is_some() {
		let mut found = false;
		let mut k = 0;
		while k < items.len() {
			if items[k].0 == c {
				found = true;
			}
			k += 1;
		}
		assert!(found, "stream misses a tile that the lookup path returns");
	}
	kani::cover!(items.len() == 4 && s.flip && s.swap);
	kani::cover!(items.len() == 0 && !q.is_empty());
	std::mem::forget(items);
	std::mem::forget(s);
}

/// sequential stand-in for TileStream::map_blob_parallel (tokio::spawn needs a runtime; what the parallel operators guarantee is C14)
pub fn map_blob_sequential<'a, F>(this: TileStream<'a>, callback: F) -> TileStream<'a>
where
	F: Fn(Blob) -> Blob + Send + Sync + 'static,
{
	use futures::StreamExt;
	TileStream { stream: this.stream.map(move |(c, b)| (c, callback(b))).boxed() }
}
