#!/usr/bin/env python3
"""Engine B for C08 (overlay): bounded symbolic execution of the MIR of from_overlayed's lookup path.

`<from_overlayed::Operation as OperationTrait>::get_tile_data::{closure#0}` (the coroutine body of the async fn, nightly
-Zunpretty=mir) is executed symbolically: the number of sources n and, per source k, "source k has a tile at the requested
coordinate" (has_k) are the symbolic variables; the slice iterator, the boxed future, Poll, `?` and Option are given their
documented semantics; every path to `return` yields (path condition, outcome). z3/cvc5 then decide, for every n <= N and every
has-vector: the paths are exhaustive, and the outcome is the tile of the FIRST source with has_k (recompressed from that source's
compression to the overlay's), or None if there is none. Anything the executor does not understand (an unknown call, a branch on
a value it has no model for) is INCONCLUSIVE (exit 2), never a pass.
"""
import json
import os
import re
import shutil
import subprocess
import time

import vlib
import engine_b
from engine_b import Inconclusive, function_body, parse_blocks, split_args, run_solver, model_values

FREE_BOOLS = set()
CALL = re.compile(r"^(.+?) = (.+)\((.*)\) -> \[return: (bb\d+)")
MAX_STEPS = 4000


def pkey(place):
	"""normalised key of a place expression: type ascriptions and copy/move/no_retag/& removed"""
	p = place.strip()
	p = re.sub(r"^(?:no_retag )?(?:copy |move )", "", p)
	p = re.sub(r"^&(?:mut )?(?:raw const |raw mut )?", "", p)
	# cut type ascriptions ": <type>)" - walk and drop from ": " to the matching ")"
	out, i = "", 0
	while i < len(p):
		if p.startswith(": ", i):
			depth = 0
			j = i
			while j < len(p):
				c = p[j]
				if c in "(<[{":
					depth += 1
				elif c in ")>]}":
					if depth == 0:
						break
					depth -= 1
				j += 1
			i = j
			continue
		out += p[i]
		i += 1
	out = out.strip()
	# strip parentheses that enclose the whole expression
	while out.startswith("(") and out.endswith(")"):
		depth = 0
		whole = True
		for j, c in enumerate(out):
			if c == "(":
				depth += 1
			elif c == ")":
				depth -= 1
				if depth == 0 and j < len(out) - 1:
					whole = False
					break
		if not whole:
			break
		out = out[1:-1].strip()
	return out


def split_assign(line):
	"""split `place = rvalue;` at the first ` = ` outside brackets (types contain `Output = ...`)"""
	depth, i = 0, 0
	while i < len(line):
		c = line[i]
		if line.startswith("->", i):
			i += 2
			continue
		if c in "(<[{":
			depth += 1
		elif c in ")>]}":
			depth -= 1
		elif depth == 0 and line.startswith(" = ", i):
			return line[:i], line[i + 3:].rstrip(";").strip()
		i += 1
	return None


def ascribed_type(place):
	m = re.search(r": ([^()]*(?:\([^()]*\)[^()]*)*)\)\s*$", place.strip())
	return m.group(1) if m else ""


class Path:
	__slots__ = ("block", "desc", "conds", "count", "asked", "steps")

	def __init__(self, block, desc, conds, count, asked, steps):
		self.block, self.desc, self.conds, self.count, self.asked, self.steps = block, desc, conds, count, asked, steps

	def fork(self, block, cond=None):
		return Path(block, dict(self.desc), self.conds + ([cond] if cond else []), self.count, list(self.asked), self.steps)


def cterm(d):
	"""SMT term of a compression descriptor"""
	if d == ("compr", ("self",)):
		return "cself"
	if d[0] == "compr" and d[1][0] == "src":
		return f"(cs {d[1][1]})"
	return None


def lookup_paths(mir, N):
	"""symbolic execution of the lookup coroutine for at most N sources. Returns (paths, header, notes);
	a path = {"conds": [...], "outcome": ("none",) | ("tile", k, recompress_ok) | ("other", text), "asked": [k, ...]}"""
	pat = r"from_overlayed::<impl at [^>]*>::get_tile_data::\{closure#0\}\("
	header, body = function_body(mir, pat)
	if body is None:
		raise Inconclusive("from_overlayed get_tile_data::{closure#0} not found in the MIR dump")
	blocks = parse_blocks(body)
	types = {m.group(1): m.group(2) for m in re.finditer(r"^\s*let (?:mut )?(_\d+): (.+);$", body, re.M)}
	notes = []
	done = []
	m = re.search(r"^\s*bb0: \{\n\s*(_\d+) = copy \(_1\.0: &mut \{async block", body, re.M)
	if not m:
		raise Inconclusive("coroutine prologue not recognised")
	self_ref = m.group(1)
	start = Path("bb0", {}, [], 0, [], 0)
	stack = [start]

	def rd(p, expr):
		"""descriptor of an operand / place expression"""
		e = expr.strip()
		if e.startswith("const "):
			return ("const", e[6:])
		k = pkey(e)
		if k in p.desc:
			return p.desc[k]
		# captured variables of the coroutine
		if re.fullmatch(r"\(\*%s\)\.\d+" % re.escape(self_ref), k):
			t = ascribed_type(re.sub(r"^(?:no_retag )?(?:copy |move )", "", e))
			if t.endswith("from_overlayed::Operation") and t.startswith("&"):
				return ("self",)
			if t.endswith("TileCoord3") and t.startswith("&"):
				return ("coord",)
			return ("capture", t)
		# projections of something known
		mm = re.fullmatch(r"\((_\d+) as (\w+)\)\.0", k)
		if mm:
			base = p.desc.get(mm.group(1))
			v = mm.group(2)
			if base:
				if base[0] == "opt_src" and v == "Some":
					return ("src", base[1])  # base[1] = SMT term of the position in the source list
				if base[0] == "poll" and v == "Ready":
					return base[1]
				if base[0] == "cf" and v == "Continue":
					return base[1]
				if base[0] == "cf" and v == "Break":
					return ("error",)
				if base[0] == "res" and v == "Some":
					return ("blob", base[1])
				if base[0] == "res" and v == "Ok":
					return base
			return ("unknown", k)
		# deref / field chains: find the innermost local and inherit, refining on known field types
		loc = re.search(r"_\d+", k)
		if loc and loc.group(0) in p.desc:
			base = p.desc[loc.group(0)]
			t = ascribed_type(re.sub(r"^(?:no_retag )?(?:copy |move )", "", e).lstrip("&").strip())
			if base[0] == "self":
				if "Vec<" in t and "OperationTrait" in t:
					return ("sources_vec",)
				if t.endswith("TileCompression"):
					return ("compr", ("self",))
				if t.endswith("TilesReaderParameters"):
					return ("params", ("self",))
				return ("self_field", t)
			if base[0] == "params" and t.endswith("TileCompression"):
				return ("compr", base[1])
			if base[0] in ("src", "coord", "sources_slice", "sources_vec", "iter", "fut", "blob", "compr"):
				return base
			return ("unknown", k)
		return ("unknown", k)

	def finish(p, outcome):
		done.append({"conds": p.conds, "outcome": outcome, "asked": p.asked})

	def classify(d):
		if d[0] == "ready" and d[1][0] == "ok":
			v = d[1][1]
			if v[0] == "none":
				return ("none",)
			if v[0] == "some":
				b = v[1]
				if b[0] == "recompressed" and b[1][0] == "blob":
					k = b[1][1]
					f, t = cterm(b[2]), cterm(b[3])
					if f and t:
						# right iff the blob is decoded with its own source's compression and encoded with the overlay's
						return ("tile", k, f"(and (= {f} (cs {k})) (= {t} cself))")
					return ("tile", k, "false")
				if b[0] == "blob":
					# handed on as stored: right iff the source's compression is the overlay's
					return ("tile", b[1], f"(= (cs {b[1]}) cself)")
		return ("other", repr(d)[:160])

	while stack:
		p = stack.pop()
		while True:
			p.steps += 1
			if p.steps > MAX_STEPS:
				raise Inconclusive("lookup path too long (loop not bounded by the source iterator?)")
			lines = blocks.get(p.block)
			if lines is None:
				raise Inconclusive(f"block {p.block} missing")
			for l in lines[:-1]:
				if l.startswith(("StorageLive", "StorageDead", "nop", "FakeRead", "PlaceMention", "AscribeUserType", "Retag", "Coverage")):
					continue
				mm = re.match(r"^discriminant\(\(\*%s\)\) = \d+;$" % re.escape(self_ref), l)
				if mm:
					continue
				sa = split_assign(l)
				if not sa:
					raise Inconclusive(f"statement not understood: {l[:100]}")
				dst, rhs = pkey(sa[0]), sa[1]
				if rhs.startswith("discriminant("):
					inner = rhs[len("discriminant("):-1]
					if pkey(inner) == f"*{self_ref}":
						p.desc[dst] = ("disc", ("coroutine",))
					else:
						p.desc[dst] = ("disc", rd(p, inner))
					continue
				agg = re.match(r"^(Option|Result|Poll)::<.*>::(None|Some|Ok|Err|Ready|Pending)(?:\((.*)\))?$", rhs)
				if agg:
					kind, var, arg = agg.groups()
					if var in ("None", "Pending"):
						p.desc[dst] = (var.lower(),)
					else:
						p.desc[dst] = (var.lower(), rd(p, arg))
					continue
				if rhs.startswith("const "):
					p.desc[dst] = ("const", rhs[6:].strip())
					continue
				if re.match(r"^(?:no_retag )?(?:copy |move |&)", rhs) or re.match(r"^\(", rhs):
					core = re.sub(r" as [^()]*\((?:Transmute|PtrToPtr|Misc|PointerCoercion[^)]*)\)$", "", rhs)
					p.desc[dst] = rd(p, core)
					continue
				raise Inconclusive(f"rvalue not modelled: {l[:120]}")
			term = lines[-1]
			if term.startswith("_0 = ") and not CALL.match(term):
				raise Inconclusive(f"terminator not understood: {term[:100]}")
			mm = CALL.match(term)
			if mm:
				sa = split_assign(term.split(" -> [return:")[0])
				if not sa or "(" not in sa[1]:
					raise Inconclusive(f"call not understood: {term[:100]}")
				nxt = mm.group(4)
				dst = pkey(sa[0])
				# callee = text up to the parenthesis that opens the argument list (the last top-level group)
				rv = sa[1]
				depth, cut = 0, None
				for j in range(len(rv) - 1, -1, -1):
					if rv[j] == ")":
						depth += 1
					elif rv[j] == "(":
						depth -= 1
						if depth == 0:
							cut = j
							break
				callee, args = rv[:cut], rv[cut + 1:-1]
				a = [rd(p, x) for x in split_args(args)]
				c = callee.strip()
				if re.search(r"as Deref>::deref$", c) and a and a[0][0] == "sources_vec":
					p.desc[dst] = ("sources_slice",)
				elif re.search(r"core::slice::<impl \[.*\]>::iter$", c) and a and a[0][0] == "sources_slice":
					p.desc[dst] = ("iter",)
				elif re.search(r"as IntoIterator>::into_iter$", c) and a and a[0][0] == "iter":
					p.desc[dst] = ("iter",)
				elif re.search(r"^<std::slice::Iter<.*> as Iterator>::next$", c) and a and a[0][0] == "iter":
					p.desc[dst] = ("opt_src", str(p.count), p.count)
					p.count += 1
				elif re.search(r"^<std::slice::Iter<.*> as Iterator>::rev$", c) and a and a[0][0] == "iter" and p.count == 0:
					p.desc[dst] = ("iter_rev",)
				elif re.search(r"as IntoIterator>::into_iter$", c) and a and a[0][0] == "iter_rev":
					p.desc[dst] = ("iter_rev",)
				elif re.search(r"^<Rev<std::slice::Iter<.*>> as Iterator>::next$", c) and a and a[0][0] == "iter_rev":
					p.desc[dst] = ("opt_src", f"(- (- n 1) {p.count})", p.count)
					p.count += 1
				elif re.search(r" as Index<usize>>::index$", c) and len(a) == 2 and a[0][0] in ("sources_vec", "sources_slice") and a[1][0] == "const" and re.match(r"^\d+_usize$", a[1][1]):
					p.desc[dst] = ("src", a[1][1].split("_")[0])
				elif re.search(r"TileCompression as PartialEq>::(ne|eq)$", c) and len(a) == 2 and cterm(a[0]) and cterm(a[1]):
					t = f"(= {cterm(a[0])} {cterm(a[1])})"
					p.desc[dst] = ("bool", t if c.endswith("::eq") else f"(not {t})")
				elif re.search(r"OperationTrait>::get_tile_data(::<.*>)?$", c):
					if len(a) != 2 or a[0][0] != "src":
						raise Inconclusive(f"get_tile_data called on something that is not an element of the source list: {a}")
					if a[1] != ("coord",):
						notes.append(f"source {a[0][1]} is asked at a coordinate that is not the requested one ({a[1]})")
					p.asked.append(a[0][1])
					p.desc[dst] = ("fut", ("res", a[0][1]))
				elif re.search(r"IntoFuture>::into_future$", c) or re.search(r"Pin::<.*>::new_unchecked$", c):
					p.desc[dst] = a[0]
				elif re.search(r"Future>::poll$", c) and a and a[0][0] == "fut":
					p.desc[dst] = ("poll", a[0][1])
				elif re.search(r" as Try>::branch$", c):
					p.desc[dst] = ("cf", a[0])
				elif re.search(r"OperationTrait>::get_parameters$", c):
					p.desc[dst] = ("params", a[0])
				elif re.search(r"(^|::)recompress$", c) and len(a) == 3:
					p.desc[dst] = ("recompressed", a[0], a[1], a[2])
				elif re.search(r"FromResidual<.*>>::from_residual$", c):
					p.desc[dst] = ("error",)
				else:
					raise Inconclusive(f"call not modelled on the lookup path: {c[:140]}")
				p.block = nxt
				continue
			mm = re.match(r"^switchInt\((.+)\) -> \[(.*)\]", term)
			if mm:
				loc, targets = mm.groups()
				tl = dict(re.findall(r"(\w+): (bb\d+)", targets))
				d = rd(p, loc)
				if d and d[0] == "self_field" and d[1] == "bool":
					# a flag of the operation set at build time (outside this executor): any value
					name = "selfflag_" + re.sub(r"\W+", "_", pkey(loc)).strip("_")
					FREE_BOOLS.add(name)
					d = ("bool", name)
				if d and d[0] == "bool":
					stack.append(p.fork(tl.get("otherwise", tl.get("1")), d[1]))
					p.conds.append(f"(not {d[1]})")
					p.block = tl["0"]
					continue
				if d and d[0] == "const" and d[1] in ("true", "false"):
					# a compile-time constant or a drop flag set on this path
					p.block = tl.get("0") if d[1] == "false" else tl.get("otherwise", tl.get("1"))
					continue
				if not d or d[0] != "disc":
					raise Inconclusive(f"branch on a value without a model: {term[:100]} ({d})")
				v = d[1]
				if v[0] == "coroutine":
					p.block = tl["0"]
				elif v[0] == "opt_src":
					k = v[2]
					if k < N:
						stack.append(p.fork(tl["1"], f"(< {k} n)"))
					p.conds.append(f"(>= {k} n)")
					p.block = tl["0"]
				elif v[0] == "poll":
					p.block = tl["0"]  # Ready; Pending suspends and resumes at the same poll
				elif v[0] == "cf":
					p.block = tl["0"]  # Continue; error paths are outside the claim
				elif v[0] == "res":
					k = v[1]
					stack.append(p.fork(tl["1"], f"(has {k})"))
					p.conds.append(f"(not (has {k}))")
					p.block = tl["0"]
				else:
					raise Inconclusive(f"data-dependent branch not modelled: {term[:80]} on {v}")
				continue
			mm = re.match(r"^goto -> (bb\d+)", term) or re.match(r"^drop\(.*\) -> \[return: (bb\d+)", term) or re.match(r"^assert\(.*\) -> \[success: (bb\d+)", term)
			if mm:
				p.block = mm.group(1)
				continue
			if term.startswith("return"):
				finish(p, classify(p.desc.get("_0", ("unknown", "_0"))))
				break
			if term.startswith("unreachable"):
				break
			raise Inconclusive(f"terminator not understood: {term[:100]}")
	return done, header.strip(), notes


def c08_smt(paths, N, kind):
	L = ["(set-logic ALL)", "(declare-const n Int)", f"(assert (and (>= n 1) (<= n {N})))"]
	L += ["(declare-fun has (Int) Bool)", "(declare-fun cs (Int) Int)", "(declare-const cself Int)"]
	L += [f"(declare-const {b} Bool)" for b in sorted(FREE_BOOLS)]
	# specification: index of the first source (< n) that has the tile, -1 if none
	spec = "(- 1)"
	for k in reversed(range(N)):
		spec = f"(ite (and (< {k} n) (has {k})) {k} {spec})"
	L.append(f"(define-fun spec () Int {spec})")
	conds = []
	bad = []
	for p in paths:
		c = "(and true " + " ".join(p["conds"]) + ")"
		conds.append(c)
		o = p["outcome"]
		if o[0] == "none":
			bad.append(f"(and {c} (not (= spec (- 1))))")
		elif o[0] == "tile":
			bad.append(f"(and {c} (not (and (= spec {o[1]}) {o[2]})))")
		else:
			bad.append(c)
	if kind == "exhaustive":
		L.append("(assert (not (or false " + " ".join(conds) + ")))")
	elif kind == "priority":
		L.append("(assert (or false " + " ".join(bad) + "))")
	elif kind == "witness_last":
		last = [f"(and (and true {' '.join(p['conds'])}) (= n {N}))" for p in paths if p["outcome"][0] == "tile"]
		last = [f"(and {x} (= spec {N - 1}))" for x in last]
		L.append("(assert (or false " + " ".join(last) + "))")
	elif kind == "witness_none":
		nn = [f"(and (and true {' '.join(p['conds'])}) (= n {N}))" for p in paths if p["outcome"][0] == "none"]
		L.append("(assert (or false " + " ".join(nn) + "))")
	L += ["(check-sat)", "(get-model)"]
	return "\n".join(L) + "\n"


C08_REPLAY_MAIN = r'''
// Native replay for C08: real overlay pipelines built by the real factory (`from_overlayed [ from_container ... | filter ..., ... ]`).
// The factory's reader callback hands out sources that sign every tile with their own name and coordinate and store it under
// the compression their file name says, each narrowed by a real filter so that the sources cover different, overlapping regions
// and levels. For every coordinate of levels 0..=4 the overlay's lookup - decoded with the compression the overlay advertises -
// must equal the decoded tile of the FIRST listed source that has one (None if none has), and the overlay's stream over two
// boxes per level must deliver exactly those tiles.
use anyhow::Result;
use async_trait::async_trait;
use futures::future::BoxFuture;
use versatiles_core::{tilejson::TileJSON, types::*, utils::{compress, decompress}};
use versatiles_pipeline::PipelineFactory;

#[derive(Debug)]
struct Signed { name: String, parameters: TilesReaderParameters, tilejson: TileJSON }

#[async_trait]
impl TilesReaderTrait for Signed {
	fn get_source_name(&self) -> &str { &self.name }
	fn get_container_name(&self) -> &str { "signed" }
	fn get_parameters(&self) -> &TilesReaderParameters { &self.parameters }
	fn override_compression(&mut self, _c: TileCompression) { panic!("not possible") }
	fn get_tilejson(&self) -> &TileJSON { &self.tilejson }
	async fn get_tile_data(&self, coord: &TileCoord3) -> Result<Option<Blob>> {
		if !self.parameters.bbox_pyramid.contains_coord(coord) { return Ok(None); }
		let raw = Blob::from(format!("{}:{}/{}/{} {}", self.name, coord.z, coord.x, coord.y, "payload ".repeat(8)));
		Ok(Some(compress(raw, &self.parameters.tile_compression)?))
	}
}

fn main() {
	let rt = tokio::runtime::Builder::new_multi_thread().enable_all().build().unwrap();
	rt.block_on(run());
}

async fn run() {
	let callback = Box::new(|filename: String| -> BoxFuture<'static, Result<Box<dyn TilesReaderTrait>>> {
		Box::pin(async move {
			let name = filename.rsplit('/').next().unwrap().to_string();
			let compression = if name.ends_with("gz") { TileCompression::Gzip } else if name.ends_with("br") { TileCompression::Brotli } else { TileCompression::Uncompressed };
			Ok(Box::new(Signed { name, parameters: TilesReaderParameters::new(TileFormat::PBF, compression, TileBBoxPyramid::new_full(6)), tilejson: TileJSON::default() }) as Box<dyn TilesReaderTrait>)
		})
	});
	let factory = PipelineFactory::default(std::path::Path::new(""), callback);
	let region = ["filter_bbox bbox=[-180,-20,20,85]", "filter_bbox bbox=[-20,-85,180,20]", "filter_zoom min=1 max=3", "filter_zoom min=0 max=31"];
	// source lists: (name, region); names end in the compression the source stores its tiles with
	let lists: Vec<Vec<(&str, usize)>> = vec![
		vec![("A-raw", 0), ("B-raw", 1)], vec![("B-raw", 1), ("A-raw", 0)],
		vec![("A-gz", 0), ("B-gz", 1), ("C-gz", 2)], vec![("C-gz", 2), ("B-br", 1), ("A-raw", 0)],
		vec![("B-br", 1), ("C-raw", 2), ("A-gz", 0), ("D-gz", 3)], vec![("A-raw", 0), ("C-br", 2), ("D-gz", 3)], vec![("C-gz", 2), ("A-gz", 0), ("B-raw", 1), ("D-br", 3)],
	];
	let mut bad = 0;
	for list in lists {
		let parts: Vec<String> = list.iter().map(|(n, r)| format!("from_container filename={n} | {}", region[*r])).collect();
		let vpl = format!("from_overlayed [ {} ]", parts.join(", "));
		let op = factory.operation_from_vpl(&vpl).await.unwrap();
		let out_c = op.get_parameters().tile_compression;
		let mut srcs = Vec::new();
		for p in parts.iter() { srcs.push(factory.operation_from_vpl(p).await.unwrap()); }
		for z in 0..=4u8 {
			let m = (1u32 << z) - 1;
			let full = TileBBox::new(z, 0, 0, m, m).unwrap();
			let mut expect: Vec<(TileCoord3, Vec<u8>)> = Vec::new();
			for c in full.iter_coords() {
				let mut want: Option<Vec<u8>> = None;
				for s in srcs.iter() {
					if let Some(b) = s.get_tile_data(&c).await.unwrap() { want = Some(decompress(b, &s.get_parameters().tile_compression).unwrap().into_vec()); break; }
				}
				let got = match op.get_tile_data(&c).await {
					Ok(Some(b)) => Some(decompress(b, &out_c).map(|b| b.into_vec()).unwrap_or_else(|_| b"<not decodable with the advertised compression>".to_vec())),
					Ok(None) => None,
					Err(_) => Some(b"<error>".to_vec()),
				};
				if want != got {
					bad += 1;
					if bad < 10 { println!("{vpl}: lookup at {c:?}: overlay returns {:?}, first source that has the tile returns {:?}", got.as_ref().map(|b| String::from_utf8_lossy(&b[..b.len().min(24)]).to_string()), want.as_ref().map(|b| String::from_utf8_lossy(&b[..b.len().min(24)]).to_string())); }
				}
				if let Some(b) = want { expect.push((c, b)); }
			}
			for bbox in [full.clone(), TileBBox::new(z, m / 2, m / 3, m, m / 2 + m / 4).unwrap()] {
				if bbox.is_empty() { continue; }
				let mut items: Vec<(TileCoord3, Vec<u8>)> = op.get_tile_stream(bbox.clone()).await.collect().await.into_iter()
					.map(|(c, b)| (c, decompress(b, &out_c).map(|b| b.into_vec()).unwrap_or_default())).collect();
				items.sort_by_key(|(c, _)| (c.z, c.y, c.x));
				let mut exp: Vec<&(TileCoord3, Vec<u8>)> = expect.iter().filter(|(c, _)| bbox.contains3(c)).collect();
				exp.sort_by_key(|(c, _)| (c.z, c.y, c.x));
				if items.len() != exp.len() || items.iter().zip(exp.iter()).any(|(a, b)| a.0 != b.0 || a.1 != b.1) {
					bad += 1;
					if bad < 10 { println!("{vpl}: stream over {bbox:?} delivers {} tiles, first-source lookups inside the box give {} (or contents differ)", items.len(), exp.len()); }
				}
			}
		}
	}
	if bad > 0 { println!("REPRODUCED: {bad} mismatches"); std::process::exit(1); }
	println!("not reproduced");
}
'''


def c08_native_replay():
	d = os.path.join(vlib.WORK, "c08-replay")
	shutil.rmtree(d, ignore_errors=True)
	os.makedirs(os.path.join(d, "src"))
	with open(os.path.join(d, "Cargo.toml"), "w") as f:
		f.write('[package]\nname = "c08_replay"\nversion = "0.0.0"\nedition = "2021"\n[workspace]\n[dependencies]\n'
			f'versatiles_core = {{ path = "{engine_b.MIRWS}/versatiles_core", default-features = false }}\n'
			f'versatiles_pipeline = {{ path = "{engine_b.MIRWS}/versatiles_pipeline" }}\n'
			'futures = "0.3"\nanyhow = "1"\nasync-trait = "0.1"\ntokio = { version = "1", features = ["rt-multi-thread"] }\n')
	with open(os.path.join(d, "src", "main.rs"), "w") as f:
		f.write(C08_REPLAY_MAIN)
	shutil.copyfile(os.path.join(vlib.REPO, "Cargo.lock"), os.path.join(d, "Cargo.lock"))
	env = dict(vlib.ENV)
	env["CARGO_TARGET_DIR"] = os.path.join(vlib.WORK, "target-c13")
	p = subprocess.run(["cargo", "run", "--offline", "--release"], cwd=d, env=env, stdout=subprocess.PIPE, stderr=subprocess.STDOUT, text=True)
	if "REPRODUCED" not in p.stdout and "not reproduced" not in p.stdout:
		return None, p.stdout[-3000:]
	return ("REPRODUCED" in p.stdout), p.stdout[-3000:]


def run_c08(prop, tier):
	t0 = time.time()
	seed = int(os.environ.get("VERIF_SEED", "0") or 0)
	queries, samples, inconclusive, funcs = [], [], [], []
	violations, rc = 0, 0
	Ns = [2, 3] if tier == "quick" else [2, 3, 4, 6, 8]
	solvers = ["z3"] if tier == "quick" else ["z3", "cvc5"]
	try:
		mir = engine_b.dump_mir_crate("versatiles_pipeline")
		known = vlib.load_known()
		for N in Ns:
			paths, header, notes = lookup_paths(mir, N)
			if N == Ns[0]:
				funcs.append(f"<from_overlayed::Operation as OperationTrait>::get_tile_data::{{closure#0}} (MIR: {header[:110]}...)")
			for nt in sorted(set(notes)):
				inconclusive.append(f"N={N}: {nt}")
			samples.append({"max_sources": N, "paths": [{"condition": p["conds"], "outcome": list(p["outcome"]), "sources_asked": p["asked"]} for p in paths[:12]], "path_count": len(paths)})
			for kind, expect in [("witness_last", "sat"), ("witness_none", "sat"), ("exhaustive", "unsat"), ("priority", "unsat")]:
				smt = c08_smt(paths, N, kind)
				verdicts = []
				for s in solvers:
					v, out, dt = run_solver(smt, s)
					verdicts.append(v)
					queries.append({"max_sources": N, "query": kind, "solver": s, "verdict": v, "expected": expect, "seconds": round(dt, 2)})
					if s == solvers[0]:
						out0 = out
				v0 = verdicts[0]
				if any(v != v0 for v in verdicts) or v0 not in ("sat", "unsat"):
					inconclusive.append(f"N={N} {kind}: solver verdicts {verdicts}")
					continue
				if expect == "sat" and v0 != "sat":
					inconclusive.append(f"N={N}: vacuous model ({kind} is {v0})")
				if expect == "unsat" and v0 == "sat":
					vals = model_values(out0)
					hv = {"model": " ".join(out0.split())[:600]}
					what = (f"from_overlayed lookup: {kind} fails for n={vals.get('n')} sources with has={hv}: the paths extracted from the MIR "
						f"return {[(p['outcome'], p['conds']) for p in paths][:6]}")
					k = next((k for k in known.get("findings", []) if k["property"] == prop and k.get("harness") == f"overlay_lookup_{kind}"), None)
					if k:
						print(f"KNOWN-FINDING: property={prop} {k['id']}: {k['what']}")
						continue
					rdir = os.path.join(vlib.VERIF, "replay", prop)
					os.makedirs(rdir, exist_ok=True)
					rpath = os.path.join(rdir, f"overlay_lookup_{kind}.json")
					json.dump({"what": what, "engine": "c08", "model": {**vals, **hv}, "max_sources": N}, open(rpath, "w"), indent=1)
					rep, log = c08_native_replay()
					open(rpath + ".native.log", "w").write(log)
					if rep:
						print(f"VIOLATION property={prop} replay={rpath} {what}")
						violations += 1
						rc = 1
					else:
						inconclusive.append(f"N={N} {kind}: solver counterexample did not reproduce natively")
					break
			if rc == 1:
				break
	except Inconclusive as e:
		inconclusive.append("overlay lookup (MIR): " + str(e))
	for i in inconclusive:
		print(f"INCONCLUSIVE property={prop} {i}")
	if inconclusive and rc == 0:
		rc = 2
	good = [q for q in queries if q["verdict"] == q["expected"]]
	ev = {
		"property_id": prop, "tier": tier, "seed": seed, "level": "model_checking",
		"coverage": {
			"evaluations": max(1, len(queries)),
			"distinct_nontrivial": len({(q["max_sources"], q["query"]) for q in good}),
			"rule": "one SMT query per (bound N on the number of sources, query kind); kinds: witness_last / witness_none (vacuity witnesses, must be sat), "
				"exhaustive (every (n, has) takes one of the extracted paths; must be unsat) and priority (some path returns something else than the tile of the "
				"first source that has one, recompressed from that source's compression to the overlay's; must be unsat); non-trivial = verdict as expected and solvers agree",
			"samples": samples or [{"note": "no paths extracted"}],
			"obligations": len(queries), "discharged": len(good),
			"checker_cmd": "cargo +nightly rustc -p versatiles_pipeline --lib -- -Zunpretty=mir | lib/engine_c08.py (bounded symbolic execution of the coroutine body) -> z3 -in (cvc5 cross-check in the thorough tier)",
			"trusted_base": ["rustc nightly MIR dump", "the MIR executor of lib/engine_c08.py with its models of slice::Iter::next, Future::poll (Ready), Try::branch (Continue), Option/Result/Poll aggregates",
				"z3 4.8.12", "cvc5 1.0 (thorough)"],
			"functions_encoded": funcs, "queries": queries, "inconclusive": inconclusive,
			"bounds": f"number of sources n <= N for N in {Ns} (the source loop is unrolled N+1 times); has_k symbolic per source; one requested coordinate (the code never inspects it)",
			"outside_claim": ["get_tile_stream of the overlay (nested loops over a tile buffer, closures and futures::stream: beyond this executor and beyond CBMC) - exercised only by the native replay program after a counterexample",
				"error paths (a source returning Err, recompress failing)", "Operation::build (order in which the VPL list becomes the source vector, coverage union, compression choice)",
				"the recompress function itself (C04)", "more than N sources"],
			"repo_state": vlib.repo_fingerprint(), "exhaustive": False,
		},
		"assumptions": ["success path only (every source call returns Ok, recompress returns Ok)", "a source answers the same way when asked twice (has_k is a function of the source and the coordinate)"],
		"wall_s": round(time.time() - t0, 1), "violations": violations,
	}
	json.dump(ev, open(os.path.join(vlib.evidence_dir(), f"{prop}.json"), "w"), indent=1)
	print(f"[{prop}] tier={tier} queries={len(queries)} as-expected={len(good)} violations={violations} inconclusive={len(inconclusive)} wall={time.time() - t0:.0f}s")
	return rc
