#!/usr/bin/env python3
"""Engine B: nightly MIR dump -> system-call skeleton -> SMT-LIB2 interleaving model (C13).

The schedule is the symbolic variable: n callers run the skeleton that the MIR of
<DataReaderFile as DataReaderTrait>::read_range / read_all contains, against the POSIX open-file-description
semantics the calls are documented to have. z3 decides "some caller's buffer != file[offset, offset+len)".
"""
import json
import os
import re
import shutil
import subprocess
import sys
import time

import vlib

MIRWS = os.path.join(vlib.WORK, "mir-ws")
MIRTARGET = os.path.join(vlib.WORK, "target-mir")


class Inconclusive(Exception):
	pass


def dump_mir():
	os.makedirs(vlib.WORK, exist_ok=True)
	r = vlib.sh(["rsync", "-a", "--delete", "--exclude", "/target", "--exclude", ".git", "--exclude", "/testdata", vlib.REPO + "/", MIRWS + "/"])
	if r.returncode != 0:
		raise Inconclusive("rsync failed")
	# force a re-run of rustc for the crate (an unchanged crate would print nothing)
	os.utime(os.path.join(MIRWS, "versatiles_core", "src", "lib.rs"))
	env = dict(vlib.ENV)
	env["CARGO_TARGET_DIR"] = MIRTARGET
	p = subprocess.run(["cargo", "+nightly", "rustc", "--offline", "-p", "versatiles_core", "--lib", "--no-default-features", "--", "-Zunpretty=mir"],
		cwd=MIRWS, env=env, stdout=subprocess.PIPE, stderr=subprocess.PIPE, text=True)
	if p.returncode != 0 or "fn " not in p.stdout:
		raise Inconclusive("MIR dump failed: " + p.stderr[-400:])
	return p.stdout


def function_body(mir, pattern):
	m = re.search(r"^fn [^\n]*" + pattern + r"[^\n]*\{\n", mir, re.M)
	if not m:
		return None, None
	start = m.end()
	end = mir.find("\n}\n", start)
	return m.group(0), mir[start:end]


def parse_blocks(body):
	blocks = {}
	for m in re.finditer(r"^    (bb\d+)(?: \(cleanup\))?: \{\n(.*?)^    \}", body, re.M | re.S):
		lines = [l.strip() for l in m.group(2).strip().split("\n") if l.strip()]
		blocks[m.group(1)] = lines
	return blocks


def propagate(tags, line):
	"""very small data-flow: a local assigned from an expression that mentions tagged locals/places inherits the tags"""
	m = re.match(r"^(_\d+) = (.*);$", line)
	if not m:
		return
	dst, expr = m.groups()
	t = set()
	for src in re.findall(r"_\d+", expr):
		t |= tags.get(src, set())
	if re.search(r"\(\*_\d+\)\.\d+: std::fs::File\)", expr) or ": std::fs::File)" in expr and "&" in expr and "(*_" in expr:
		t.add("SELF_FILE")
	if re.search(r"\.\d+: &types::byte_range::ByteRange\)", expr):
		t.add("RANGE")
	fm = re.search(r"\(\(\*(_\d+)\)\.(\d): u64\)", expr)
	if fm and "RANGE" in tags.get(fm.group(1), set()):
		t.discard("RANGE")
		t.add("OFF" if fm.group(2) == "0" else "LEN")
	fm = re.search(r"\(\(\*(_\d+)\)\.\d: u64\)", expr)
	if fm and "SELF" in tags.get(fm.group(1), set()) and "RANGE" not in tags.get(fm.group(1), set()):
		t.add("SIZE")
	if re.search(r": &io::data_reader_file::DataReaderFile\)", expr):
		t.add("SELF")
	if re.match(r"^Start\(", expr):
		t.add("SEEK_START")
		if "const 0_u64" in expr:
			t.add("ZERO")
	if "const 0_u64" in expr and not t:
		t.add("ZERO")
	tags[dst] = t


CALL_ANY_RE = re.compile(r"^(.+?) = (.+?)\((.*)\) -> \[return: (bb\d+)")
CALL_RE = re.compile(r"^(_\d+) = (.+?)\((.*)\) -> \[return: (bb\d+)")


def split_args(args):
	out, depth, cur = [], 0, ""
	for ch in args:
		if ch in "([<":
			depth += 1
		elif ch in ")]>":
			depth -= 1
		if ch == "," and depth == 0:
			out.append(cur.strip())
			cur = ""
		else:
			cur += ch
	if cur.strip():
		out.append(cur.strip())
	return out


def walk(mir, header, body, tags, ops, calls_seen, depth=0):
	"""follow the success path of one MIR body; returns the tags of the return place _0"""
	if depth > 4:
		raise Inconclusive("helper functions nested too deeply")
	blocks = parse_blocks(body)
	local_types = dict(re.findall(r"let (?:mut )?(_\d+): ([^;]+);", body))
	cur = "bb0"
	steps = 0
	while steps < 400:
		steps += 1
		lines = blocks.get(cur)
		if lines is None:
			raise Inconclusive(f"block {cur} missing")
		for l in lines[:-1]:
			propagate(tags, l)
		term = lines[-1]
		m = CALL_RE.match(term)
		if m:
			dst, callee, args, nxt = m.groups()
			arg_exprs = split_args(args)
			argtags = []
			for a in arg_exprs:
				t = set()
				for loc in re.findall(r"_\d+", a):
					t |= tags.get(loc, set())
				if "const 0_u64" in a:
					t.add("ZERO")
				argtags.append(t)
			alltags = set().union(*argtags) if argtags else set()
			calls_seen.append(callee)
			file_arg = any(("SELF_FILE" in t or "DUP" in t or "OWN" in t) for t in argtags)

			def desc_of(t):
				return "dup" if "DUP" in t else ("own" if "OWN" in t else ("self" if "SELF_FILE" in t else None))

			if re.search(r"\bFile::try_clone$", callee):
				if "SELF_FILE" not in alltags:
					raise Inconclusive("try_clone on something other than self.file")
				ops.append({"op": "dup"})
				tags[dst] = {"DUP"}
			elif re.search(r"\bFile::open$", callee) or re.search(r"OpenOptions::open$", callee):
				ops.append({"op": "open"})
				tags[dst] = {"OWN"}
			elif re.search(r"<(&)?(std::fs::)?File as (std::io::)?Seek>::seek$", callee):
				desc = desc_of(argtags[0]) if argtags else None
				if desc is None or "SEEK_START" not in alltags:
					raise Inconclusive("seek whose receiver or position the model cannot follow")
				pos = "off" if "OFF" in alltags else ("zero" if "ZERO" in alltags else None)
				if pos is None:
					raise Inconclusive("seek to a position that is neither range.offset nor 0")
				ops.append({"op": "seek", "desc": desc, "pos": pos})
				tags[dst] = set()
			elif re.search(r"<(&)?(std::fs::)?File as (std::io::)?Read>::read_exact$", callee):
				desc = desc_of(argtags[0]) if argtags else None
				if desc is None:
					raise Inconclusive("read_exact on a receiver the model cannot follow")
				ops.append({"op": "read", "desc": desc})
				tags[dst] = set()
			elif re.search(r"FileExt>::(read_exact_at|read_at|seek_read)$", callee):
				if not file_arg:
					raise Inconclusive("positional read on a receiver the model cannot follow")
				pos = "off" if "OFF" in alltags else ("zero" if "ZERO" in alltags else None)
				if pos is None:
					raise Inconclusive("positional read at a position that is neither range.offset nor 0")
				ops.append({"op": "pread", "pos": pos})
				tags[dst] = set()
			elif re.search(r"Read>::(read_to_end|read|read_buf|read_to_string)$", callee) and file_arg:
				# any cursor-based read through the file (e.g. File::take(n).read_to_end): reads at and advances the shared offset
				desc = desc_of(set().union(*argtags))
				ops.append({"op": "read", "desc": desc or "self"})
				tags[dst] = set()
			elif re.search(r"\b(RwLock|Atomic\w*|RefCell|Cell|OnceLock|OnceCell|UnsafeCell)\b", callee) and any("SELF" in t for t in argtags):
				raise Inconclusive(f"shared mutable state of the reader other than the file cursor is used ({callee.split('::<')[0][-60:]}): outside the cursor model")
			elif re.search(r"Mutex<.*>::lock$", callee):
				ops.append({"op": "lock"})
				tags[dst] = {"GUARD"} | alltags
			elif file_arg and not re.search(r"as Try>::branch$|FromResidual|as Deref(Mut)?>::deref(_mut)?$|::from$|unwrap$|expect$|map_err|into$|as_ref$|borrow$|Read>::take$|Read>::by_ref$|Write>::by_ref$", callee):
				# a helper function of the same crate? descend into it with the argument tags bound to its parameters
				h2, b2 = function_body(mir, re.escape(callee.split("::<")[0]) + r"\(")
				if b2 is None:
					raise Inconclusive(f"call on the file value outside the model's vocabulary: {callee}")
				sub = {f"_{i + 1}": set(t) for i, t in enumerate(argtags)}
				tags[dst] = walk(mir, h2, b2, sub, ops, calls_seen, depth + 1)
			else:
				tags[dst] = set(alltags) - {"SEEK_START"}
			cur = nxt
			continue
		m = re.match(r"^switchInt\((?:move|copy) (_\d+)\) -> \[(.*)\]", term)
		if m:
			tl = dict(re.findall(r"(\w+): (bb\d+)", m.group(2)))
			# which enum is being matched? `_k = discriminant(_x)` in this block, _x declared as Option<..> -> follow Some (1)
			follow = "0"
			for l in lines[:-1]:
				dm = re.match(r"^%s = discriminant\((_\d+|.*?)\);$" % re.escape(m.group(1)), l)
				if dm:
					src = re.findall(r"_\d+", dm.group(1))
					ty = local_types.get(src[0], "") if src else ""
					if "Option<" in ty or "Option<" in dm.group(1):
						follow = "1"
			cur = tl.get(follow) or tl.get("0") or list(tl.values())[0]
			continue
		m = re.match(r"^goto -> (bb\d+)", term)
		if m:
			cur = m.group(1)
			continue
		m = re.match(r"^drop\((_\d+)\) -> \[return: (bb\d+)", term)
		if m:
			if "GUARD" in tags.get(m.group(1), set()):
				ops.append({"op": "unlock"})
			cur = m.group(2)
			continue
		m = re.match(r"^assert\(.*\) -> \[success: (bb\d+)", term)
		if m:
			cur = m.group(1)
			continue
		if term.startswith("return") or term.startswith("coroutine_drop") or term.startswith("unreachable"):
			break
		m = re.match(r"^_\d+ = .*-> \[return: (bb\d+)", term)
		if m:
			cur = m.group(1)
			continue
		raise Inconclusive(f"terminator not understood: {term[:100]}")
	return tags.get("_0", set())


def skeleton(mir, fn_pattern):
	header, body = function_body(mir, fn_pattern)
	if body is None:
		raise Inconclusive(f"function {fn_pattern} not found in the MIR dump")
	ops, calls_seen = [], []
	walk(mir, header, body, {}, ops, calls_seen)
	if not any(o["op"] in ("read", "pread") for o in ops):
		raise Inconclusive("no read operation found on the success path")
	return ops, header.strip(), calls_seen


def atomic_steps(ops):
	"""group the skeleton into atomic steps: each file operation is one step, a lock..unlock section is one step;
	dup/open only create a description (shared resp. private offset), which the desc tag of the later ops records"""
	steps = []
	cur = None
	for o in ops:
		if o["op"] == "lock":
			cur = []
			continue
		if o["op"] == "unlock":
			if cur:
				steps.append(cur)
			cur = None
			continue
		if o["op"] in ("dup", "open"):
			continue
		if cur is not None:
			cur.append(o)
		else:
			steps.append([o])
	if cur:
		steps.append(cur)
	return steps


def smt_model(steps, n, mode):
	"""mode: 'violation' | 'feasible' | 'interleaved'"""
	T = n * len(steps)
	L = []
	A = L.append
	A("(set-logic ALL)")
	A("(declare-fun file (Int) Int)")  # file content (uninterpreted)
	A("(declare-const init_off Int)")
	A("(assert (>= init_off 0))")
	shared = any(o.get("desc") in ("dup", "self") for s in steps for o in s if o["op"] in ("seek", "read"))
	for c in range(n):
		A(f"(declare-const off{c} Int)")
		A(f"(declare-const len{c} Int)")
		A(f"(assert (and (>= off{c} 0) (> len{c} 0)))")
		for k in range(len(steps)):
			A(f"(declare-const t{c}_{k} Int)")
			A(f"(assert (and (>= t{c}_{k} 0) (< t{c}_{k} {T})))")
			if k > 0:
				A(f"(assert (< t{c}_{k - 1} t{c}_{k}))")
	allt = [f"t{c}_{k}" for c in range(n) for k in range(len(steps))]
	A("(assert (distinct " + " ".join(allt) + "))")
	# shared description offset after each time step; own descriptions per caller
	for tau in range(T + 1):
		A(f"(declare-const so{tau} Int)")
	A("(assert (= so0 init_off))")
	for c in range(n):
		A(f"(declare-const rp{c} Int)")  # position caller c's read started at
	for c in range(n):
		# own-description offset evolves only through c's own steps: compute symbolically in program order
		own = "0"
		for k, st in enumerate(steps):
			for o in st:
				if o["op"] == "seek" and o["desc"] == "own":
					own = f"off{c}" if o["pos"] == "off" else "0"
				if o["op"] == "read" and o["desc"] == "own":
					A(f"(assert (= rp{c} {own}))")
					own = f"(+ {own} len{c})"
				if o["op"] == "pread":
					A(f"(assert (= rp{c} {('off%d' % c) if o['pos'] == 'off' else '0'}))")
	for tau in range(T):
		# effect of the step scheduled at tau on the shared offset
		expr = f"so{tau}"
		for c in range(n):
			for k, st in enumerate(steps):
				cur = f"so{tau}"
				reads = []
				for o in st:
					if o["op"] == "seek" and o["desc"] in ("dup", "self"):
						cur = f"off{c}" if o["pos"] == "off" else "0"
					if o["op"] == "read" and o["desc"] in ("dup", "self"):
						reads.append(cur)
						cur = f"(+ {cur} len{c})"
				expr = f"(ite (= t{c}_{k} {tau}) {cur} {expr})"
				for r in reads:
					A(f"(assert (=> (= t{c}_{k} {tau}) (= rp{c} {r})))")
		A(f"(assert (= so{tau + 1} {expr}))")
	if mode == "violation":
		# some caller's buffer is not file[off, off+len): it started reading somewhere else
		# (expected start: range.offset, or 0 for functions that seek to the start of the file)
		want = "off" if any(o.get("pos") == "off" for st in steps for o in st) else "zero"
		A("(assert (or " + " ".join(f"(not (= rp{c} {('off%d' % c) if want == 'off' else '0'}))" for c in range(n)) + "))")
	elif mode == "interleaved":
		# witness that the schedule space contains a true interleaving (caller 1 runs between two steps of caller 0)
		if len(steps) >= 2:
			A(f"(assert (and (< t0_0 t1_0) (< t1_0 t0_{len(steps) - 1})))")
	A("(check-sat)")
	A("(get-model)")
	return "\n".join(L) + "\n"


def run_solver(smt, solver):
	t0 = time.time()
	cmd = ["z3", "-in", "-T:120"] if solver == "z3" else ["cvc5", "--lang", "smt2", "--produce-models", "--tlimit=120000"]
	p = subprocess.run(cmd, input=smt, stdout=subprocess.PIPE, stderr=subprocess.STDOUT, text=True)
	out = p.stdout
	dt = time.time() - t0
	if "(error" in out and not out.strip().startswith(("sat", "unsat")):
		return "error", out, dt
	first = out.strip().split("\n")[0].strip() if out.strip() else "error"
	if "(error" in out and first == "unsat":
		# a model request after unsat is the only tolerated error
		errs = [l for l in out.split("\n") if "(error" in l and "model is not available" not in l and "cannot get model" not in l.lower() and "unless after a SAT" not in l]
		if errs:
			return "error", out, dt
	return first, out, dt


def model_values(out):
	vals = {}
	for m in re.finditer(r"\(define-fun (\w+) \(\) Int\s+(\(- \d+\)|\d+)\)", out):
		v = m.group(2)
		vals[m.group(1)] = -int(v[3:-1]) if v.startswith("(") else int(v)
	return vals


REPLAY_MAIN = r'''
// Native replay for C13: the solver's schedule says caller A's seek can land between caller B's seek and read.
// 16 threads issue read_range calls with distinct offsets against ONE DataReaderFile; any returned buffer that
// differs from the file content at its own offset reproduces the violation.
use std::io::Write;
use std::sync::Arc;
use versatiles_core::io::{DataReaderFile, DataReaderTrait};
use versatiles_core::types::ByteRange;

fn main() {
	let path = std::env::temp_dir().join(format!("verif-c13-{}.bin", std::process::id()));
	let mut data = Vec::with_capacity(1 << 16);
	for i in 0..(1u32 << 14) {
		data.extend_from_slice(&i.to_le_bytes());
	}
	std::fs::File::create(&path).unwrap().write_all(&data).unwrap();
	let reader: Arc<Box<DataReaderFile>> = Arc::new(DataReaderFile::open(&path).unwrap());
	let data = Arc::new(data);
	let deadline = std::time::Instant::now() + std::time::Duration::from_secs(10);
	let mut handles = vec![];
	for t in 0..16u64 {
		let reader = reader.clone();
		let data = data.clone();
		handles.push(std::thread::spawn(move || {
			let mut bad = 0u64;
			let mut i = 0u64;
			while std::time::Instant::now() < deadline && bad == 0 {
				let off = ((t * 7919 + i * 104729) % ((1 << 16) - 64)) as u64;
				let len = 1 + (i % 48);
				let blob = futures::executor::block_on(reader.read_range(&ByteRange::new(off, len))).unwrap();
				if blob.as_slice() != &data[off as usize..(off + len) as usize] {
					bad += 1;
				}
				i += 1;
			}
			bad
		}));
	}
	let bad: u64 = handles.into_iter().map(|h| h.join().unwrap()).sum();
	let _ = std::fs::remove_file(&path);
	if bad > 0 {
		println!("REPRODUCED: {} concurrent read_range call(s) returned bytes from another caller's offset", bad);
		std::process::exit(1);
	}
	println!("not reproduced within 10 s");
}
'''


def native_replay(prop):
	"""Build a tiny crate against /repo's versatiles_core and hammer DataReaderFile from 16 threads."""
	d = os.path.join(vlib.WORK, "c13-replay")
	shutil.rmtree(d, ignore_errors=True)
	os.makedirs(os.path.join(d, "src"))
	with open(os.path.join(d, "Cargo.toml"), "w") as f:
		f.write('[package]\nname = "c13_replay"\nversion = "0.0.0"\nedition = "2021"\n[workspace]\n[dependencies]\n'
			f'versatiles_core = {{ path = "{MIRWS}/versatiles_core", default-features = false }}\nfutures = "0.3"\n')
	with open(os.path.join(d, "src", "main.rs"), "w") as f:
		f.write(REPLAY_MAIN)
	shutil.copyfile(os.path.join(vlib.REPO, "Cargo.lock"), os.path.join(d, "Cargo.lock"))
	env = dict(vlib.ENV)
	env["CARGO_TARGET_DIR"] = os.path.join(vlib.WORK, "target-c13")
	p = subprocess.run(["cargo", "run", "--offline", "--release"], cwd=d, env=env, stdout=subprocess.PIPE, stderr=subprocess.STDOUT, text=True)
	out = p.stdout[-3000:]
	return ("REPRODUCED" in p.stdout), out, d


def run_c13(prop, tier):
	t0 = time.time()
	seed = int(os.environ.get("VERIF_SEED", "0") or 0)
	queries = []
	samples = []
	inconclusive = []
	violations = 0
	rc = 0
	funcs = []
	try:
		mir = dump_mir()
		ns = [2] if tier == "quick" else [2, 3]
		solvers = ["z3"] if tier == "quick" else ["z3", "cvc5"]
		for fname, pat in [("read_range", r"data_reader_file::<impl [^>]*>::read_range::\{closure#0\}\("), ("read_all", r"data_reader_file::<impl [^>]*>::read_all::\{closure#0\}\(")]:
			ops, header, calls = skeleton(mir, pat)
			steps = atomic_steps(ops)
			funcs.append(f"<DataReaderFile as DataReaderTrait>::{fname} (MIR: {header[:90]}...)")
			for n in ns:
				for mode, expect in [("feasible", "sat"), ("interleaved", "sat"), ("violation", "unsat")]:
					smt = smt_model(steps, n, mode)
					verdicts = []
					for s in solvers:
						v, out, dt = run_solver(smt, s)
						verdicts.append(v)
						queries.append({"function": fname, "callers": n, "query": mode, "solver": s, "verdict": v, "expected": expect, "seconds": round(dt, 2)})
					v0 = verdicts[0]
					if any(v != v0 for v in verdicts) or v0 not in ("sat", "unsat"):
						inconclusive.append(f"{fname} n={n} {mode}: solver verdicts {verdicts}")
						continue
					if mode in ("feasible", "interleaved") and v0 != "sat":
						inconclusive.append(f"{fname} n={n}: vacuous model ({mode} query is {v0})")
					if mode == "violation" and v0 == "sat":
						vals = model_values(out)
						order = sorted((vals.get(f"t{c}_{k}", -1), f"caller{c}:" + "+".join(o["op"] for o in steps[k])) for c in range(n) for k in range(len(steps)))
						sched = [x[1] for x in order]
						desc = (f"{fname}: schedule {sched} with offsets {[vals.get('off%d' % c) for c in range(n)]} makes a caller read at "
							f"{[vals.get('rp%d' % c) for c in range(n)]} instead of its own offset")
						rdir = os.path.join(vlib.VERIF, "replay", prop)
						os.makedirs(rdir, exist_ok=True)
						rpath = os.path.join(rdir, f"{fname}_n{n}.schedule.json")
						json.dump({"function": fname, "skeleton": ops, "callers": n, "schedule": sched, "model": vals, "what": desc}, open(rpath, "w"), indent=1)
						samples.append({"function": fname, "callers": n, "counterexample_schedule": sched, "skeleton": ops})
						known = vlib.load_known()
						k = next((k for k in known.get("findings", []) if k["property"] == prop and k.get("function") == fname), None)
						if k:
							print(f"KNOWN-FINDING: property={prop} {k['id']}: {k['what']}")
							continue
						rep, out_r, _d = native_replay(prop)
						with open(rpath + ".native.log", "w") as f:
							f.write(out_r)
						if rep:
							print(f"VIOLATION property={prop} replay={rpath} {desc}")
							violations += 1
							rc = 1
						else:
							inconclusive.append(f"{fname} n={n}: solver schedule did not reproduce natively in 10 s")
				samples.append({"function": fname, "callers": n, "skeleton": ops, "atomic_steps": [[o["op"] for o in s] for s in steps],
					"symbolic": "schedule (distinct step times under program order), offsets, lengths, initial shared offset, file content (uninterpreted)"})
	except Inconclusive as e:
		inconclusive.append(str(e))
	for i in inconclusive:
		print(f"INCONCLUSIVE property={prop} {i}")
	if inconclusive and rc == 0:
		rc = 2
	good = [q for q in queries if q["verdict"] == q["expected"]]
	ev = {
		"property_id": prop, "tier": tier, "seed": seed, "level": "model_checking",
		"coverage": {
			"evaluations": max(1, len(queries)),
			"distinct_nontrivial": len({(q["function"], q["callers"], q["query"]) for q in good}),
			"rule": "one SMT query per (function, number of callers, query kind); kinds: feasible/interleaved (vacuity witnesses, must be sat) and violation (must be unsat); "
				"non-trivial = verdict as expected and solvers agree",
			"samples": samples or [{"note": "no skeleton extracted"}],
			"obligations": len(queries), "discharged": len(good),
			"checker_cmd": "cargo +nightly rustc -p versatiles_core --lib -- -Zunpretty=mir | lib/engine_b.py -> z3 -in (cvc5 cross-check in the thorough tier)",
			"trusted_base": ["rustc nightly MIR dump", "the MIR walker of lib/engine_b.py (success-path call skeleton, data flow of receiver/offset/length)",
				"POSIX open-file-description semantics as encoded (dup shares the offset; read reads at and advances it; pread does neither)", "z3 4.8.12", "cvc5 1.0 (thorough)"],
			"functions_encoded": funcs, "queries": queries, "inconclusive": inconclusive,
			"bounds": f"callers n in {[2] if tier == 'quick' else [2, 3]}; offsets/lengths/initial offset unbounded integers; one call per caller",
			"outside_claim": ["tile lookups of the versatiles/pmtiles/tar readers are reduced to read_range calls by reading (the async mutexes around the index caches are trusted)",
				"more than 3 concurrent callers", "several calls per caller (each call starts with its own seek, so one call per caller is the general case)", "short reads / I/O errors"],
			"repo_state": vlib.repo_fingerprint(), "exhaustive": False,
		},
		"assumptions": ["success path only (every call returns Ok)", "file content does not change during the reads"],
		"wall_s": round(time.time() - t0, 1), "violations": violations,
	}
	json.dump(ev, open(os.path.join(vlib.evidence_dir(), f"{prop}.json"), "w"), indent=1)
	print(f"[{prop}] tier={tier} queries={len(queries)} as-expected={len(good)} violations={violations} inconclusive={len(inconclusive)} wall={time.time() - t0:.0f}s")
	return rc


# =============================================================================================
# C06: transform consistency of the converting reader (coverage vs lookup vs stream), MIR -> SMT
# =============================================================================================
def dump_mir_crate(crate):
	os.makedirs(vlib.WORK, exist_ok=True)
	r = vlib.sh(["rsync", "-a", "--delete", "--exclude", "/target", "--exclude", ".git", vlib.REPO + "/", MIRWS + "/"])
	if r.returncode != 0:
		raise Inconclusive("rsync failed")
	os.utime(os.path.join(MIRWS, crate, "src", "lib.rs"))
	env = dict(vlib.ENV)
	env["CARGO_TARGET_DIR"] = MIRTARGET
	p = subprocess.run(["cargo", "+nightly", "rustc", "--offline", "-p", crate, "--lib", "--", "-Zunpretty=mir"],
		cwd=MIRWS, env=env, stdout=subprocess.PIPE, stderr=subprocess.PIPE, text=True)
	if p.returncode != 0 or "fn " not in p.stdout:
		raise Inconclusive(f"MIR dump of {crate} failed: " + p.stderr[-400:])
	return p.stdout


def dump_mir_container():
	return dump_mir_crate("versatiles_container")


def flag_field_indices():
	"""field indices of flip_y / swap_xy in struct TilesConverterParameters, read from the source"""
	src = open(os.path.join(vlib.REPO, "versatiles_container/src/container/converter.rs")).read()
	m = re.search(r"pub struct TilesConverterParameters\s*\{(.*?)\n\}", src, re.S)
	if not m:
		raise Inconclusive("struct TilesConverterParameters not found")
	fields = re.findall(r"pub (\w+)\s*:", m.group(1))
	if "flip_y" not in fields or "swap_xy" not in fields:
		raise Inconclusive("flip_y / swap_xy fields not found")
	return fields.index("flip_y"), fields.index("swap_xy")


_HELPER_CACHE = {}


def transform_paths(mir, fn_pattern, idx_flip, idx_swap, source_call=None, helpers=(), _depth=0, param_flags=None):
	"""For every (flip, swap) assignment: the ordered list of TransformCoord calls on the path the function takes.
	Returns {(flip, swap): [("flip"|"swap", receiver type), ...]} plus notes.
	helpers: name prefixes of crate-local functions whose own call sequence is spliced in where they are called (so that
	extracting part of a path into a helper function does not hide its transforms)."""
	header, body = function_body(mir, fn_pattern)
	if body is None:
		raise Inconclusive(f"function {fn_pattern} not found in the MIR dump")
	blocks = parse_blocks(body)
	# which locals / places carry a flag
	debug = {}
	for m in re.finditer(r"debug (flip_y|swap_xy) => ([^;]+);", body):
		debug[m.group(2).strip()] = "flip" if m.group(1) == "flip_y" else "swap"
	flag_of = {}
	for lines in blocks.values():
		for l in lines:
			m = re.match(r"^(_\d+) = copy (.+);$", l)
			if not m:
				continue
			dst, expr = m.groups()
			if re.search(r"TilesConverterParameters\)\.%d: bool\)$" % idx_flip, expr) or re.fullmatch(r"\((?:_\d+|\(\*_\d+\))\.%d: bool\)" % idx_flip, expr) and "TilesConverterParameters" in header:
				flag_of[dst] = "flip"
			elif re.search(r"TilesConverterParameters\)\.%d: bool\)$" % idx_swap, expr) or re.fullmatch(r"\((?:_\d+|\(\*_\d+\))\.%d: bool\)" % idx_swap, expr) and "TilesConverterParameters" in header:
				flag_of[dst] = "swap"
			elif expr.strip() in debug:
				flag_of[dst] = debug[expr.strip()]
	for place, name in debug.items():
		if re.fullmatch(r"_\d+", place):
			flag_of[place] = name
	for i, name in (param_flags or {}).items():
		flag_of[f"_{i + 1}"] = name
	# boolean combinations of flags (the optimiser turns `flip || swap` into `Ne(flip, swap)` + a second test)
	exprs = {}
	for lines in blocks.values():
		for l in lines:
			m = re.match(r"^(_\d+) = (Ne|Eq|BitOr|BitAnd|BitXor)\((?:copy|move) (_\d+), (?:copy|move) (_\d+)\);$", l)
			if m:
				exprs[m.group(1)] = (m.group(2), m.group(3), m.group(4))
			m = re.match(r"^(_\d+) = Not\((?:copy|move) (_\d+)\);$", l)
			if m:
				exprs[m.group(1)] = ("Not", m.group(2), None)

	def value_of(loc, flip, swap, depth=0):
		if loc in flag_of:
			return flip if flag_of[loc] == "flip" else swap
		if loc in exprs and depth < 8:
			op, a, b = exprs[loc]
			va = value_of(a, flip, swap, depth + 1)
			vb = value_of(b, flip, swap, depth + 1) if b else None
			if va is None or (b and vb is None):
				return None
			return {"Ne": va != vb, "Eq": va == vb, "BitOr": va or vb, "BitAnd": va and vb, "BitXor": va != vb, "Not": not va}[op]
		return None

	# locals that hold (a reference into) the requested pyramid option of the converter parameters
	req = set()
	changed = True
	while changed:
		changed = False
		for lines in blocks.values():
			for l in lines:
				m = re.match(r"^(_\d+) = (.+);$", l)
				if not m or m.group(1) in req:
					continue
				expr = m.group(2)
				if "Option<versatiles_core::types::TileBBoxPyramid>" in expr or any(re.search(r"\b%s\b" % re.escape(x), expr) for x in req):
					req.add(m.group(1))
					changed = True
	guards = set()
	result = {}
	notes = []
	for flip, swap, has_req in [(f, w, r) for f in (False, True) for w in (False, True) for r in (False, True)]:
		if True:
			seqs = set()
			stack = [("bb0", (), False, 0)]
			paths = 0
			while stack:
				cur, seq, seen_source, depth = stack.pop()
				if depth > 300:
					raise Inconclusive("path too long")
				lines = blocks.get(cur)
				if lines is None:
					raise Inconclusive(f"block {cur} missing")
				term = lines[-1]
				# aliases of flag locals inside the block (e.g. _37 = copy _20)
				for l in lines[:-1]:
					m = re.match(r"^(_\d+) = (?:copy|move) (_\d+);$", l)
					if m and m.group(2) in flag_of:
						flag_of[m.group(1)] = flag_of[m.group(2)]
					if m and m.group(2) in guards:
						guards.add(m.group(1))
				m = CALL_ANY_RE.match(term)
				if m:
					dst, callee, args, nxt = m.groups()
					t = re.search(r"<(?:[\w:]+::)?(TileCoord3|TileBBoxPyramid|TileBBox) as (?:[\w:]+::)?TransformCoord>::(flip_y|swap_xy)$", callee)
					arg_locals = [re.findall(r"_\d+", a) for a in split_args(args)]
					if t:
						seq = seq + ((("flip" if t.group(2) == "flip_y" else "swap"), t.group(1)),)
					elif re.search(r"TileBBoxPyramid::intersect$", callee) or re.search(r"TileBBox::intersect_pyramid$", callee):
						which = "REQ" if len(arg_locals) > 1 and any(x in req for x in arg_locals[1]) else "ADV"
						seq = seq + (("clip", which),)
					elif re.search(r"TileBBoxPyramid::contains_coord$", callee):
						which = "REQ" if arg_locals and any(x in req for x in arg_locals[0]) else "ADV"
						seq = seq + (("guard", which),)
						guards.add(dst)
					elif source_call and re.search(source_call, callee):
						seen_source = True
					elif "map_coord" in callee:
						seq = seq + (("map_coord", "closure"),)
					elif helpers and _depth < 3 and "{closure" not in callee and not callee.strip().startswith("<"):
						# a function of this crate (its body is in the dump under exactly this name): splice in its own sequence
						# flags handed to the helper as arguments keep their identity inside it (argument i = parameter _{i+1})
						pf = tuple(sorted((i, flag_of[a[0]]) for i, a in enumerate(arg_locals) if len(a) == 1 and a[0] in flag_of))
						key = (callee.strip(), idx_flip, idx_swap, pf)
						if key not in _HELPER_CACHE:
							pat = r"(?<=fn )" + re.escape(callee.strip()) + r"\("
							if function_body(mir, pat)[1] is None and re.fullmatch(r"[A-Za-z_]\w*::[a-z_]\w*", callee.strip()):
								# an inherent method: `Type::method` at the call site, `module::<impl at ..>::method` in the MIR header
								alt = r"(?<=fn )[\w:]*<impl at [^>]*>::" + re.escape(callee.strip().split("::")[-1]) + r"\("
								if len(re.findall(r"^fn [^\n]*" + alt, mir, re.M)) == 1:
									pat = alt
							if function_body(mir, pat)[1] is None:
								_HELPER_CACHE[key] = None  # not a function of this crate: opaque, as before
							else:
								_HELPER_CACHE[key] = transform_paths(mir, pat, idx_flip, idx_swap, None, helpers, _depth + 1, param_flags=dict(pf))[0]
						sub = _HELPER_CACHE[key]
						if sub is not None:
							seq = seq + tuple(tuple(t) for t in sub[(flip, swap, has_req)])
					stack.append((nxt, seq, seen_source, depth + 1))
					continue
				m = re.match(r"^switchInt\((?:move|copy) (_\d+)\) -> \[(.*)\]", term)
				if m:
					loc, targets = m.groups()
					tl = re.findall(r"(\w+): (bb\d+)", targets)
					val = value_of(loc, flip, swap)
					if loc in guards:
						# a containment guard: the path continues where the guard holds (its effect is modelled in SMT)
						tgt = dict(tl).get("otherwise", dict(tl).get("1"))
						stack.append((tgt, seq, seen_source, depth + 1))
					elif loc in req:
						# Some / None of the requested pyramid
						tgt = dict(tl).get("1") if has_req else dict(tl).get("0")
						stack.append((tgt, seq, seen_source, depth + 1))
					elif val is not None:
						tgt = dict(tl).get("0") if not val else dict(tl).get("otherwise", dict(tl).get("1"))
						stack.append((tgt, seq, seen_source, depth + 1))
					else:
						# data-dependent branch (coroutine state, Poll, Option, Result): follow every non-"otherwise" target
						# that is not the error/Pending arm; the value-0 arm is the success arm by construction of these enums
						first = dict(tl).get("0") or tl[0][1]
						stack.append((first, seq, seen_source, depth + 1))
						others = [b for v, b in tl if v not in ("0", "otherwise") and b != first]
						if "discriminant" in " ".join(lines) and len(tl) == 3 and not seen_source and source_call:
							# an Option/bool-like decision BEFORE the source is consulted may be a guard: explore it too
							for b in others:
								stack.append((b, seq + (("guard-branch", cur),), seen_source, depth + 1))
					continue
				m = re.match(r"^goto -> (bb\d+)", term) or re.match(r"^drop\(.*\) -> \[return: (bb\d+)", term) or re.match(r"^assert\(.*\) -> \[success: (bb\d+)", term) or re.match(r"^_\d+ = .*-> \[return: (bb\d+)", term)
				if m:
					stack.append((m.group(1), seq, seen_source, depth + 1))
					continue
				if term.startswith("return") or term.startswith("coroutine_drop"):
					paths += 1
					if source_call and not seen_source:
						notes.append(f"{fn_pattern[:40]} flip={flip} swap={swap}: a path returns before the source is consulted")
					else:
						seqs.add(seq)
					continue
				if term.startswith("unreachable") or term.startswith("resume") or term.startswith("terminate") or "unwind" in term.split("(")[0]:
					continue
				raise Inconclusive(f"terminator not understood: {term[:100]}")
			if len(seqs) != 1:
				raise Inconclusive(f"{fn_pattern[:50]} flip={flip} swap={swap} requested={has_req}: {len(seqs)} different transform sequences on the success paths: {sorted(seqs)[:3]}")
			result[(flip, swap, has_req)] = list(seqs.pop())
	return result, notes, header.strip()


def smt_apply(seq, x, y):
	"""symbolic application of a transform sequence to the point (x, y); M = 2^z - 1"""
	for op, _ty in seq:
		if op == "flip":
			y = f"(- M {y})"
		elif op == "swap":
			x, y = y, x
	return x, y


def smt_apply_box(seq, b):
	"""box as (x0, y0, x1, y1), non-empty"""
	x0, y0, x1, y1 = b
	for op, _ty in seq:
		if op == "flip":
			y0, y1 = f"(- M {y1})", f"(- M {y0})"
		elif op == "swap":
			x0, y0, x1, y1 = y0, x0, y1, x1
	return x0, y0, x1, y1


def _inbox(b, x, y):
	return f"(and (<= {b}x0 {x}) (<= {x} {b}x1) (<= {b}y0 {y}) (<= {y} {b}y1))"


def _t(op, x, y):
	if op == "flip":
		return x, f"(- M {y})"
	if op == "swap":
		return y, x
	return x, y


def c06_query(kind, cov, lookup, sbox, smap, has_req):
	"""Boxes: S = source level box, R = requested level box (full level when no pyramid was requested), B = box asked of the stream.
	cov/lookup/sbox are op lists of ("flip"|"swap", ty), ("clip", which), ("guard", which); all transforms are involutions."""
	L = ["(set-logic ALL)", "(declare-const z Int)", "(declare-const M Int)", "(declare-const x Int)", "(declare-const y Int)",
		"(assert (and (>= z 0) (<= z 31)))"]
	L.append("(assert (or " + " ".join(f"(and (= z {k}) (= M {2 ** k - 1}))" for k in range(32)) + "))")
	for b in ("S", "R", "B"):
		for v in ("x0", "y0", "x1", "y1"):
			L.append(f"(declare-const {b}{v} Int)")
		L.append(f"(assert (and (>= {b}x0 0) (<= {b}x0 {b}x1) (<= {b}x1 M) (>= {b}y0 0) (<= {b}y0 {b}y1) (<= {b}y1 M)))")
	if not has_req:
		L.append("(assert (and (= Rx0 0) (= Ry0 0) (= Rx1 M) (= Ry1 M)))")
	# p = (x, y) is a source tile
	L.append("(assert (and (>= x 0) (<= x M) (>= y 0) (<= y M)))")
	L.append("(assert " + _inbox("S", "x", "y") + ")")
	# forward through the coverage computation: c = T(p), clips must hold on the way
	cx, cy = "x", "y"
	cov_ok = []
	for op, arg in cov:
		if op in ("flip", "swap"):
			cx, cy = _t(op, cx, cy)
		elif op == "clip":
			cov_ok.append(_inbox("R", cx, cy) if arg == "REQ" else "true")
	in_cov = "(and true " + " ".join(cov_ok) + ")"
	if kind == "spec":
		# T must be "flip first, then swap" and the advertised set must be T(S) restricted to the request
		sx, sy = "x", "y"
		flips = [op for op, _ in cov]
		if "flip" in flips:
			sy = "(- M y)"
		if "swap" in flips:
			sx, sy = sy, sx
		L.append(f"(assert (not (and (= {cx} {sx}) (= {cy} {sy}) (= {in_cov} {_inbox('R', sx, sy)}))))")
	elif kind == "lookup":
		# a tile of the advertised coverage must be found by the lookup, at its pre-image
		L.append(f"(assert {in_cov})")
		lx, ly = cx, cy
		ok_guards = []
		for op, arg in lookup:
			if op in ("flip", "swap"):
				lx, ly = _t(op, lx, ly)
			elif op == "guard":
				if arg == "REQ":
					ok_guards.append(_inbox("R", lx, ly))
				else:
					# advertised pyramid: membership of the current point q means: q = T(p') for a source tile p' passing the clips
					qx, qy = lx, ly
					conds = []
					for op2, arg2 in reversed(cov):
						if op2 == "clip":
							conds.append(_inbox("R", qx, qy) if arg2 == "REQ" else "true")
						else:
							qx, qy = _t(op2, qx, qy)
					ok_guards.append("(and " + _inbox("S", qx, qy) + " " + " ".join(conds) + ")")
		L.append("(assert (not (and true " + " ".join(ok_guards) + f" (= {lx} x) (= {ly} y))))")
	elif kind == "stream_coord":
		mx, my = smt_apply(smap, "x", "y")
		L.append(f"(assert (not (and (= {mx} {cx}) (= {my} {cy}))))")
	elif kind == "stream_box":
		# a tile of the advertised coverage that lies in the requested box B must lie in the box handed to the source
		L.append(f"(assert {in_cov})")
		L.append("(assert " + _inbox("B", cx, cy) + ")")
		# membership of p in the transformed box: walk the box operations backwards from p
		ux, uy = "x", "y"
		conds = []
		for op, arg in reversed(sbox):
			if op in ("flip", "swap"):
				ux, uy = _t(op, ux, uy)
			elif op == "clip":
				if arg == "REQ":
					conds.append(_inbox("R", ux, uy))
				else:
					qx, qy = ux, uy
					c2 = []
					for op2, arg2 in reversed(cov):
						if op2 == "clip":
							c2.append(_inbox("R", qx, qy) if arg2 == "REQ" else "true")
						else:
							qx, qy = _t(op2, qx, qy)
					conds.append("(and " + _inbox("S", qx, qy) + " " + " ".join(c2) + ")")
		L.append("(assert (not (and " + _inbox("B", ux, uy) + " " + " ".join(conds) + ")))")
	elif kind == "stream_vs_lookup":
		# C02 directly: for every output coordinate c = (u, v) and source tile p: the lookup at c inside the requested box B
		# returns p  <=>  the stream over B delivers p at c
		L.append("(declare-const u Int)")
		L.append("(declare-const v Int)")
		L.append("(assert (and (>= u 0) (<= u M) (>= v 0) (<= v M)))")

		def in_advertised(qx, qy):
			conds = []
			for op2, arg2 in reversed(cov):
				if op2 == "clip":
					conds.append(_inbox("R", qx, qy) if arg2 == "REQ" else "true")
				else:
					qx, qy = _t(op2, qx, qy)
			return "(and " + _inbox("S", qx, qy) + " " + " ".join(conds) + ")"

		lx, ly = "u", "v"
		g = []
		for op, arg in lookup:
			if op in ("flip", "swap"):
				lx, ly = _t(op, lx, ly)
			elif op in ("guard", "clip"):
				g.append(_inbox("R", lx, ly) if arg == "REQ" else in_advertised(lx, ly))
		a_side = "(and " + _inbox("B", "u", "v") + " " + " ".join(g) + f" (= {lx} x) (= {ly} y))"
		ux, uy = "x", "y"
		conds = []
		for op, arg in reversed(sbox):
			if op in ("flip", "swap"):
				ux, uy = _t(op, ux, uy)
			elif op in ("clip", "guard"):
				conds.append(_inbox("R", ux, uy) if arg == "REQ" else in_advertised(ux, uy))
		mx, my = smt_apply(smap, "x", "y")
		d_side = "(and " + _inbox("B", ux, uy) + " " + " ".join(conds) + f" (= {mx} u) (= {my} v))"
		L.append(f"(assert (not (= {a_side} {d_side})))")
	L.append("(check-sat)")
	L.append("(get-model)")
	return "\n".join(L) + "\n"


C06_REPLAY_MAIN = r'''
// Native replay for C06 (transform consistency): a source at zoom 2 (coverage (0,0)-(2,1)) whose tiles carry their own coordinates.
// For the given flags (and, optionally, a requested pyramid with the asymmetric level box (0,0)-(1,2)) every tile of the
// ADVERTISED coverage must be returned by the lookup and delivered by the stream, carrying the source tile at its
// pre-image under T = swap . flip.
use versatiles_container::{TilesConvertReader, TilesConverterParameters};
use versatiles_core::types::*;

#[derive(Debug)]
struct Echo { p: TilesReaderParameters, tj: versatiles_core::tilejson::TileJSON }
#[async_trait::async_trait]
impl TilesReaderTrait for Echo {
	fn get_source_name(&self) -> &str { "echo" }
	fn get_container_name(&self) -> &str { "echo" }
	fn get_parameters(&self) -> &TilesReaderParameters { &self.p }
	fn override_compression(&mut self, _c: TileCompression) {}
	fn get_tilejson(&self) -> &versatiles_core::tilejson::TileJSON { &self.tj }
	async fn get_tile_data(&self, c: &TileCoord3) -> anyhow::Result<Option<Blob>> {
		if self.p.bbox_pyramid.contains_coord(c) { Ok(Some(Blob::from(format!("{},{},{}", c.x, c.y, c.z)))) } else { Ok(None) }
	}
}

fn main() {
	let rt = tokio::runtime::Builder::new_multi_thread().enable_all().build().unwrap();
	rt.block_on(run());
}

async fn run() {
	let args: Vec<String> = std::env::args().collect();
	let (flip, swap, with_req) = (args[1] == "true", args[2] == "true", args.len() > 3 && args[3] == "true");
	let mut pyr = TileBBoxPyramid::new_empty();
	// asymmetric source coverage (3 x 2 tiles): a coverage that is not transformed shows
	pyr.set_level_bbox(TileBBox::new(2, 0, 0, 2, 1).unwrap());
	let echo = Echo { p: TilesReaderParameters::new(TileFormat::PBF, TileCompression::Uncompressed, pyr), tj: Default::default() };
	let req = if with_req {
		let mut r = TileBBoxPyramid::new_empty();
		r.set_level_bbox(TileBBox::new(2, 0, 0, 1, 2).unwrap());
		Some(r)
	} else { None };
	let conv = TilesConvertReader::new_from_reader(Box::new(echo), TilesConverterParameters::new(None, req, false, flip, swap)).unwrap();
	let advertised = conv.get_parameters().bbox_pyramid.clone();
	let mut bad = 0;
	let pre = |cx: u32, cy: u32| { let (mut x, mut y) = (cx, cy); if swap { std::mem::swap(&mut x, &mut y); } if flip { y = 3 - y; } (x, y) };
	let items = conv.get_bbox_tile_stream(TileBBox::new(2, 0, 0, 3, 3).unwrap()).await.collect().await;
	for cx in 0..4u32 { for cy in 0..4u32 {
		let c = TileCoord3::new(cx, cy, 2).unwrap();
		let (x, y) = pre(cx, cy);
		// advertised coverage = image of the source coverage under T, restricted to the requested box
		let want_adv = x <= 2 && y <= 1 && (!with_req || (cx <= 1 && cy <= 2));
		if advertised.contains_coord(&c) != want_adv { bad += 1; println!("advertised coverage at ({cx},{cy}) is {} but the selected image of the source coverage says {}", advertised.contains_coord(&c), want_adv); }
		if !advertised.contains_coord(&c) { continue; }
		let want = format!("{},{},2", x, y);
		let got = conv.get_tile_data(&c).await.unwrap();
		if got.map(|b| b.as_str().to_string()) != Some(want.clone()) { bad += 1; println!("lookup at ({cx},{cy}) does not return source tile ({x},{y})"); }
		let in_stream: Vec<_> = items.iter().filter(|(ic, _)| *ic == c).collect();
		if in_stream.len() != 1 || in_stream[0].1.as_str() != want { bad += 1; println!("stream does not deliver source tile ({x},{y}) at ({cx},{cy}) exactly once"); }
	}}
	// stream vs lookups on boxes that also reach beyond the advertised coverage (C02)
	for bbox in [TileBBox::new(2, 0, 0, 3, 3).unwrap(), TileBBox::new(2, 1, 0, 3, 2).unwrap(), TileBBox::new(2, 0, 1, 1, 3).unwrap()] {
		let mut streamed: Vec<(u32, u32, String)> = conv.get_bbox_tile_stream(bbox.clone()).await.collect().await.into_iter().map(|(c, b)| (c.x, c.y, b.as_str().to_string())).collect();
		streamed.sort();
		let mut looked: Vec<(u32, u32, String)> = Vec::new();
		for c in bbox.iter_coords() {
			if let Some(b) = conv.get_tile_data(&c).await.unwrap() { looked.push((c.x, c.y, b.as_str().to_string())); }
		}
		looked.sort();
		if streamed != looked { bad += 1; println!("stream over {bbox:?} delivers {} tiles, the lookups inside the box return {} (or different bytes / coordinates)", streamed.len(), looked.len()); }
	}
	if bad > 0 { println!("REPRODUCED: {bad} mismatches"); std::process::exit(1); }
	println!("not reproduced");
}
'''


def c06_native_replay(flip, swap, req_model=None):
	d = os.path.join(vlib.WORK, "c06-replay")
	shutil.rmtree(d, ignore_errors=True)
	os.makedirs(os.path.join(d, "src"))
	with open(os.path.join(d, "Cargo.toml"), "w") as f:
		f.write('[package]\nname = "c06_replay"\nversion = "0.0.0"\nedition = "2021"\n[workspace]\n[dependencies]\n'
			f'versatiles_core = {{ path = "{MIRWS}/versatiles_core", default-features = false }}\n'
			f'versatiles_container = {{ path = "{MIRWS}/versatiles_container", default-features = false }}\n'
			'futures = "0.3"\nanyhow = "1"\nasync-trait = "0.1"\ntokio = { version = "1", features = ["rt-multi-thread"] }\n')
	with open(os.path.join(d, "src", "main.rs"), "w") as f:
		f.write(C06_REPLAY_MAIN)
	shutil.copyfile(os.path.join(vlib.REPO, "Cargo.lock"), os.path.join(d, "Cargo.lock"))
	env = dict(vlib.ENV)
	env["CARGO_TARGET_DIR"] = os.path.join(vlib.WORK, "target-c13")
	p = subprocess.run(["cargo", "run", "--offline", "--release", "--", str(flip).lower(), str(swap).lower(), str(req_model is not None).lower()], cwd=d, env=env,
		stdout=subprocess.PIPE, stderr=subprocess.STDOUT, text=True)
	return ("REPRODUCED" in p.stdout), p.stdout[-3000:]


def run_c06_transform(prop, tier, kinds=("spec", "lookup", "stream_coord", "stream_box")):
	"""returns dict(rc, queries, samples, inconclusive, violations, lines, funcs, seconds)"""
	out = {"rc": 0, "queries": [], "samples": [], "inconclusive": [], "violations": 0, "lines": [], "funcs": []}
	try:
		mir = dump_mir_container()
		fi, si = flag_field_indices()
		base = r"converter::<impl [^>]*>::"
		_HELPER_CACHE.clear()
		hp = ("converter::", "TilesConvertReader::", "TilesConverterParameters::")
		cov, n1, h1 = transform_paths(mir, base + r"new_from_reader\(", fi, si, helpers=hp)
		look, n2, h2 = transform_paths(mir, base + r"get_tile_data::\{closure#0\}\(", fi, si, source_call=r"TilesReaderTrait>::get_tile_data", helpers=hp)
		sbox, n3, h3 = transform_paths(mir, base + r"get_bbox_tile_stream::\{closure#0\}\(", fi, si, source_call=r"TilesReaderTrait>::get_bbox_tile_stream", helpers=hp)
		smap, n4, h4 = transform_paths(mir, base + r"get_bbox_tile_stream::\{closure#0\}::\{closure#0\}\(", fi, si, helpers=hp)
		out["funcs"] = [h[:110] for h in (h1, h2, h3, h4)]
		for n in n1 + n2 + n3 + n4:
			out["inconclusive"].append(n + " (a data-dependent early exit is outside the transform model)")
		solvers = ["z3"] if tier == "quick" else ["z3", "cvc5"]
		known = vlib.load_known()
		KEEP = ("flip", "swap", "clip", "guard")
		for flip, swap, has_req in [(f, w, r) for f in (False, True) for w in (False, True) for r in (False, True)]:
			if True:
				key = (flip, swap, has_req)
				c = [t for t in cov[key] if t[0] in KEEP]
				l = [t for t in look[key] if t[0] in KEEP]
				sb = [t for t in sbox[key] if t[0] in KEEP]
				has_map = any(t[0] == "map_coord" for t in sbox[key])
				sm = [t for t in smap[key] if t[0] in ("flip", "swap")] if has_map else []
				sample = {"flip_y": flip, "swap_xy": swap, "requested_pyramid": has_req, "coverage_calls": c, "lookup_calls": l, "stream_box_calls": sb, "stream_coord_calls": sm, "stream_installs_coord_map": has_map}
				out["samples"].append(sample)
				for kind in kinds:
					smt = c06_query(kind, c, l, sb, sm, has_req)
					verdicts = []
					for s in solvers:
						v, o, dt = run_solver(smt, s)
						verdicts.append(v)
						out["queries"].append({"flags": f"flip={flip} swap={swap} requested={has_req}", "query": kind, "solver": s, "verdict": v, "expected": "unsat", "seconds": round(dt, 2)})
					v0 = verdicts[0]
					if any(v != v0 for v in verdicts) or v0 not in ("sat", "unsat"):
						out["inconclusive"].append(f"transform {kind} flip={flip} swap={swap} requested={has_req}: solver verdicts {verdicts}")
						continue
					if v0 == "sat":
						vals = model_values(o)
						what = (f"converting reader, flip_y={flip} swap_xy={swap} requested pyramid={has_req}: {kind} path disagrees with the advertised coverage "
							f"(z={vals.get('z')}, source tile ({vals.get('x')},{vals.get('y')})); calls: coverage {c}, lookup {l}, stream box {sb}, stream coords {sm}")
						k = next((k for k in known.get("findings", []) if k["property"] == prop and k.get("harness") == f"transform_{kind}"), None)
						if k:
							out["lines"].append(f"KNOWN-FINDING: property={prop} {k['id']}: {k['what']}")
							continue
						rdir = os.path.join(vlib.VERIF, "replay", prop)
						os.makedirs(rdir, exist_ok=True)
						rpath = os.path.join(rdir, f"transform_{kind}_flip{int(flip)}_swap{int(swap)}_req{int(has_req)}.json")
						json.dump({"what": what, "sample": sample, "model": vals}, open(rpath, "w"), indent=1)
						rep, log = c06_native_replay(flip, swap, vals if has_req else None)
						open(rpath + ".native.log", "w").write(log)
						if rep:
							out["lines"].append(f"VIOLATION property={prop} replay={rpath} {what}")
							out["violations"] += 1
							out["rc"] = 1
						else:
							out["inconclusive"].append(f"transform {kind} flip={flip} swap={swap}: solver counterexample did not reproduce natively")
	except Inconclusive as e:
		out["inconclusive"].append("transform consistency (MIR): " + str(e))
	return out


# =============================================================================================
# C09: the filter operations themselves (filter_zoom / filter_bbox): lookup guard vs stream clip, from the MIR
# =============================================================================================
C09_REPLAY_MAIN = r'''
// Native replay for C09 (filter operations): real pipelines built by the real factory over `from_debug` (a source that has
// every tile at every level). For a battery of filter arguments (including an empty retained range) and request boxes the
// stream must deliver exactly the tiles that single lookups return inside the box, and both must be exactly the tiles inside
// the coverage the operation advertises.
use versatiles_core::types::*;
use versatiles_pipeline::PipelineFactory;

fn main() {
	let rt = tokio::runtime::Builder::new_multi_thread().enable_all().build().unwrap();
	rt.block_on(run());
}

async fn run() {
	let which = std::env::args().nth(1).unwrap_or_default();
	let vpls: Vec<String> = if which == "filter_zoom" {
		vec!["min=2 max=4", "max=3", "min=3", "min=5 max=3", "min=0 max=0", "min=6 max=31"].into_iter().map(|a| format!("from_debug format=pbf | filter_zoom {a}")).collect()
	} else {
		vec!["bbox=[-10,-10,10,10]", "bbox=[-180,-85,180,85]", "bbox=[100,40,101,41]", "bbox=[-179,-80,-178,-79]"].into_iter().map(|a| format!("from_debug format=pbf | filter_bbox {a}")).collect()
	};
	let factory = PipelineFactory::new_dummy();
	let mut bad = 0;
	for vpl in vpls {
		let op = factory.operation_from_vpl(&vpl).await.unwrap();
		let advertised = op.get_parameters().bbox_pyramid.clone();
		for z in 0..=6u8 {
			let m = (1u32 << z) - 1;
			let boxes = vec![TileBBox::new(z, 0, 0, m, m).unwrap(), TileBBox::new(z, m / 2, m / 3, m, m / 2 + m / 4).unwrap()];
			for bbox in boxes {
				if bbox.is_empty() { continue; }
				let mut items = op.get_tile_stream(bbox.clone()).await.collect().await;
				items.sort_by_key(|(c, _)| (c.z, c.y, c.x));
				let mut looked = Vec::new();
				for c in bbox.iter_coords() {
					let got = op.get_tile_data(&c).await.unwrap();
					if got.is_some() != advertised.contains_coord(&c) {
						bad += 1;
						if bad < 10 { println!("{vpl}: lookup at {c:?} returns {} but advertised coverage says {}", got.is_some(), advertised.contains_coord(&c)); }
					}
					if let Some(b) = got { looked.push((c, b)); }
				}
				looked.sort_by_key(|(c, _)| (c.z, c.y, c.x));
				if items.len() != looked.len() || items.iter().zip(looked.iter()).any(|(a, b)| a.0 != b.0 || a.1.as_slice() != b.1.as_slice()) {
					bad += 1;
					if bad < 10 { println!("{vpl}: stream over {bbox:?} delivers {} tiles, lookups inside the box return {}", items.len(), looked.len()); }
				}
			}
		}
	}
	if bad > 0 { println!("REPRODUCED: {bad} mismatches"); std::process::exit(1); }
	println!("not reproduced");
}
'''


def c09_native_replay(op):
	d = os.path.join(vlib.WORK, "c09-replay")
	shutil.rmtree(d, ignore_errors=True)
	os.makedirs(os.path.join(d, "src"))
	with open(os.path.join(d, "Cargo.toml"), "w") as f:
		f.write('[package]\nname = "c09_replay"\nversion = "0.0.0"\nedition = "2021"\n[workspace]\n[dependencies]\n'
			f'versatiles_core = {{ path = "{MIRWS}/versatiles_core", default-features = false }}\n'
			f'versatiles_pipeline = {{ path = "{MIRWS}/versatiles_pipeline" }}\n'
			'futures = "0.3"\nanyhow = "1"\ntokio = { version = "1", features = ["rt-multi-thread"] }\n')
	with open(os.path.join(d, "src", "main.rs"), "w") as f:
		f.write(C09_REPLAY_MAIN)
	shutil.copyfile(os.path.join(vlib.REPO, "Cargo.lock"), os.path.join(d, "Cargo.lock"))
	env = dict(vlib.ENV)
	env["CARGO_TARGET_DIR"] = os.path.join(vlib.WORK, "target-c13")
	p = subprocess.run(["cargo", "run", "--offline", "--release", "--", op], cwd=d, env=env, stdout=subprocess.PIPE, stderr=subprocess.STDOUT, text=True)
	return ("REPRODUCED" in p.stdout), p.stdout[-3000:]


def c09_query(kind, lookup, stream):
	"""P = the operation's own level box (Pe: empty at this level), Q = requested box, p = (x, y) a tile of the level.
	lookup / stream: op lists of ("guard"|"clip", which) and coordinate transforms (none expected)."""
	L = ["(set-logic ALL)", "(declare-const z Int)", "(declare-const M Int)", "(declare-const x Int)", "(declare-const y Int)", "(declare-const Pe Bool)",
		"(assert (and (>= z 0) (<= z 31)))"]
	L.append("(assert (or " + " ".join(f"(and (= z {k}) (= M {2 ** k - 1}))" for k in range(32)) + "))")
	for b in ("P", "Q"):
		for v in ("x0", "y0", "x1", "y1"):
			L.append(f"(declare-const {b}{v} Int)")
		L.append(f"(assert (and (>= {b}x0 0) (<= {b}x0 {b}x1) (<= {b}x1 M) (>= {b}y0 0) (<= {b}y0 {b}y1) (<= {b}y1 M)))")
	L.append("(assert (and (>= x 0) (<= x M) (>= y 0) (<= y M)))")
	in_p = lambda px, py: "(and (not Pe) " + _inbox("P", px, py) + ")"
	# lookup: the requested coordinate travels through the op list; every guard must hold; the source is asked at the result
	lx, ly = "x", "y"
	g = []
	for op, arg in lookup:
		if op in ("flip", "swap"):
			lx, ly = _t(op, lx, ly)
		elif op in ("guard", "clip"):
			g.append(in_p(lx, ly))
	passes = "(and true " + " ".join(g) + ")"
	if kind == "lookup_spec":
		# a tile is returned exactly when it lies in the operation's coverage, and it is the source tile at the same coordinate
		L.append(f"(assert (not (and (= {passes} {in_p('x', 'y')}) (= {lx} x) (= {ly} y))))")
	else:
		# stream: the box handed to the source; a source tile p is delivered iff p lies in that box
		sx, sy = "x", "y"
		c = []
		for op, arg in reversed(stream):
			if op in ("flip", "swap"):
				sx, sy = _t(op, sx, sy)
			elif op in ("guard", "clip"):
				c.append(in_p(sx, sy))
		delivered = "(and " + _inbox("Q", sx, sy) + " " + " ".join(c) + ")"
		L.append(f"(assert (not (= {delivered} (and " + _inbox("Q", "x", "y") + f" {passes}))))")
	L.append("(check-sat)")
	L.append("(get-model)")
	return "\n".join(L) + "\n"


def run_c09_ops(prop, tier):
	out = {"rc": 0, "queries": [], "samples": [], "inconclusive": [], "violations": 0, "lines": [], "funcs": []}
	try:
		mir = dump_mir_crate("versatiles_pipeline")
		solvers = ["z3"] if tier == "quick" else ["z3", "cvc5"]
		known = vlib.load_known()
		KEEP = ("flip", "swap", "clip", "guard")
		for op in ("filter_zoom", "filter_bbox"):
			base = op + r"::<impl at [^>]*>::"
			look, n1, h1 = transform_paths(mir, base + r"get_tile_data::\{closure#0\}\(", -1, -1, source_call=r"OperationTrait>::get_tile_data")
			strm, n2, h2 = transform_paths(mir, base + r"get_tile_stream::\{closure#0\}\(", -1, -1, source_call=r"OperationTrait>::get_tile_stream")
			out["funcs"] += [h[:130] for h in (h1, h2)]
			for n in sorted(set(n1 + n2)):
				out["inconclusive"].append(f"{op}: {n} (a data-dependent early exit is outside the guard/clip model)")
			key = (False, False, False)
			l = [t for t in look[key] if t[0] in KEEP]
			s = [t for t in strm[key] if t[0] in KEEP]
			sample = {"operation": op, "lookup_calls": l, "stream_calls": s}
			out["samples"].append(sample)
			for kind in ("lookup_spec", "stream_vs_lookup"):
				smt = c09_query(kind, l, s)
				verdicts = []
				for sv in solvers:
					v, o, dt = run_solver(smt, sv)
					verdicts.append(v)
					out["queries"].append({"flags": op, "query": kind, "solver": sv, "verdict": v, "expected": "unsat", "seconds": round(dt, 2)})
				v0 = verdicts[0]
				if any(v != v0 for v in verdicts) or v0 not in ("sat", "unsat"):
					out["inconclusive"].append(f"{op} {kind}: solver verdicts {verdicts}")
					continue
				if v0 == "sat":
					vals = model_values(o)
					what = (f"{op}: {kind} fails (z={vals.get('z')}, tile ({vals.get('x')},{vals.get('y')}), coverage empty at this level={vals.get('Pe')}); "
						f"calls on the lookup path {l}, on the stream path {s}")
					k = next((k for k in known.get("findings", []) if k["property"] == prop and k.get("harness") == f"{op}_{kind}"), None)
					if k:
						out["lines"].append(f"KNOWN-FINDING: property={prop} {k['id']}: {k['what']}")
						continue
					rdir = os.path.join(vlib.VERIF, "replay", prop)
					os.makedirs(rdir, exist_ok=True)
					rpath = os.path.join(rdir, f"{op}_{kind}.json")
					json.dump({"what": what, "sample": sample, "model": vals}, open(rpath, "w"), indent=1)
					rep, log = c09_native_replay(op)
					open(rpath + ".native.log", "w").write(log)
					if rep:
						out["lines"].append(f"VIOLATION property={prop} replay={rpath} {what}")
						out["violations"] += 1
						out["rc"] = 1
					else:
						out["inconclusive"].append(f"{op} {kind}: solver counterexample did not reproduce natively")
	except Inconclusive as e:
		out["inconclusive"].append("filter operations (MIR): " + str(e))
	return out
