#!/usr/bin/env python3
"""Driver for the solver-based checks of versatiles-rs (Engine A: Kani/CBMC over an overlay copy).

Stdlib only. See /verif/DESIGN.md section 2.1.
"""
import fcntl
import hashlib
import json
import os
import re
import shutil
import subprocess
import sys
import time
from concurrent.futures import ThreadPoolExecutor

VERIF = os.path.dirname(os.path.dirname(os.path.abspath(__file__)))
REPO = os.environ.get("VERIF_REPO", "/repo")
WORK = os.environ.get("VERIF_WORK", "/var/tmp/versatiles-verif")
WS = os.path.join(WORK, "ws")
STAGE = os.path.join(WORK, "stage")
TARGET = os.path.join(WORK, "target")
LOGS = os.path.join(WORK, "logs")

ENV = dict(os.environ)
ENV.update({"CARGO_NET_OFFLINE": "true", "CARGO_TERM_COLOR": "never"})
ENV.pop("RUSTUP_TOOLCHAIN", None)

STD_STUBS = [
	"std::fmt::format -> empty String (message text is outside every claim)",
	"std::backtrace::Backtrace::capture -> Backtrace::disabled",
]


def sh(cmd, **kw):
	return subprocess.run(cmd, shell=isinstance(cmd, str), stdout=subprocess.PIPE, stderr=subprocess.STDOUT, text=True, **kw)


# ---------------------------------------------------------------------------------------------
# overlay
# ---------------------------------------------------------------------------------------------
class OverlayError(Exception):
	pass


def _read(p):
	with open(p, encoding="utf-8") as f:
		return f.read()


def _write(p, s):
	os.makedirs(os.path.dirname(p), exist_ok=True)
	with open(p, "w", encoding="utf-8") as f:
		f.write(s)


def build_stage():
	"""Copy /repo's working tree to STAGE and apply every overlay in /verif/harness/*/overlay.json."""
	os.makedirs(WORK, exist_ok=True)
	r = sh(["rsync", "-a", "--delete", "--exclude", "/target", "--exclude", ".git", "--exclude", "/tmp", REPO + "/", STAGE + "/"])
	if r.returncode != 0:
		raise OverlayError("rsync failed: " + r.stdout)
	hroot = os.path.join(VERIF, "harness")
	for group in sorted(os.listdir(hroot)):
		ov = os.path.join(hroot, group, "overlay.json")
		if not os.path.exists(ov) and os.environ.get("VERIF_DEV"):
			ov = os.path.join(hroot, group, "overlay.dev.json")  # overlay under development, not yet registered
		if not os.path.exists(ov):
			continue
		spec = json.load(open(ov))
		gdir = os.path.join(hroot, group)
		for src, dst in spec.get("copy", []):
			s = os.path.join(gdir, src) if not src.startswith("/") else src
			if src.startswith("common/"):
				s = os.path.join(hroot, src)
			d = os.path.join(STAGE, dst)
			if os.path.isdir(s):
				shutil.copytree(s, d, dirs_exist_ok=True)
			else:
				os.makedirs(os.path.dirname(d), exist_ok=True)
				shutil.copyfile(s, d)
		for dst, text in spec.get("append", []):
			p = os.path.join(STAGE, dst)
			if not os.path.exists(p):
				raise OverlayError(f"overlay target missing: {dst}")
			_write(p, _read(p) + "\n" + text + "\n")
		for src, dst in spec.get("infile", []):
			p = os.path.join(STAGE, dst)
			if not os.path.exists(p):
				raise OverlayError(f"overlay target missing: {dst}")
			_write(p, _read(p) + "\n" + _read(os.path.join(gdir, src)) + "\n")
		for dst, pattern, repl in spec.get("subst", []):
			p = os.path.join(STAGE, dst)
			if not os.path.exists(p):
				raise OverlayError(f"overlay target missing: {dst}")
			text = _read(p)
			new, n = re.subn(pattern, repl, text, flags=re.M)
			if n != 1:
				raise OverlayError(f"substitution {pattern!r} matched {n} times in {dst} (expected exactly 1)")
			_write(p, new)


def prepare_ws():
	"""STAGE -> WS by checksum so that unchanged files keep their mtime (cargo then rebuilds only what changed)."""
	os.makedirs(WORK, exist_ok=True)
	lock = open(os.path.join(WORK, "prepare.lock"), "w")
	fcntl.flock(lock, fcntl.LOCK_EX)
	try:
		build_stage()
		r = sh(["rsync", "-rlpc", "--delete", STAGE + "/", WS + "/"])
		if r.returncode != 0:
			raise OverlayError("rsync stage->ws failed: " + r.stdout)
	finally:
		fcntl.flock(lock, fcntl.LOCK_UN)
		lock.close()


def repo_fingerprint():
	r = sh(f"cd {REPO} && git rev-parse HEAD && git status --porcelain | sha1sum")
	return " ".join(r.stdout.split())


# ---------------------------------------------------------------------------------------------
# harness description
# ---------------------------------------------------------------------------------------------
class H:
	"""One Kani harness instance."""

	def __init__(self, name, crate, path, tier="quick", funcs=(), bounds="", stubs=(), timeout=None, mem_gb=None,
			unwindset=None, sample="", replay="playback", cbmc_args=(), expect_cover=True, kani_args=(), should_panic=False):
		self.name = name  # function name
		self.crate = crate  # cargo package
		self.path = path  # module path inside the crate, e.g. verif_kani::c15
		self.tier = tier
		self.funcs = list(funcs)  # repository functions this harness drives
		self.bounds = bounds
		self.stubs = list(stubs)
		self.timeout = timeout
		self.mem_gb = mem_gb
		self.unwindset = unwindset  # list of (regex on loop-id/function, bound)
		self.sample = sample  # symbolic input description
		self.replay = replay
		self.cbmc_args = list(cbmc_args)
		self.expect_cover = expect_cover
		self.kani_args = list(kani_args)
		self.should_panic = should_panic

	@property
	def full(self):
		return f"{self.path}::{self.name}"


class Result:
	def __init__(self, h):
		self.h = h
		self.status = "inconclusive"  # success | failed | inconclusive
		self.reason = ""
		self.checks = 0
		self.failed = []  # list of dict(check, description, location, function)
		self.covers = {}  # description -> satisfied?
		self.unwind_failed = False
		self.unsupported = []
		self.solver_s = 0.0
		self.wall_s = 0.0
		self.log = ""
		self.cover_total = 0
		self.cover_sat = 0


CHECK_RE = re.compile(r"^Check (\d+): (.*?)\n\t - Status: (\w+)\n\t - Description: \"(.*?)\"\n(?:\t - Location: (.*?)\n)?", re.M | re.S)


def parse_log(text, res):
	m = re.search(r"^VERIFICATION:- (\w+)", text, re.M)
	if not m:
		res.status = "inconclusive"
		if re.search(r"^error(\[E\d+\])?:", text, re.M):
			res.reason = "build error: " + "; ".join(re.findall(r"^error(?:\[E\d+\])?: (.*)$", text, re.M)[:3])
		elif "Status: ERROR" in text or "out of memory" in text.lower() or "std::bad_alloc" in text:
			res.reason = "solver ran out of memory"
		else:
			res.reason = "no verdict (timeout, memory limit or crash)"
		return
	verdict = m.group(1)
	for cm in CHECK_RE.finditer(text):
		num, cname, status, desc, loc = cm.groups()
		res.checks += 1
		if ".cover." in cname or desc.startswith("cover condition"):
			res.checks -= 1
			res.covers[desc] = res.covers.get(desc, False) or status == "SATISFIED"
			continue
		if status in ("FAILURE", "UNDETERMINED") and status == "FAILURE":
			func = ""
			if loc and " in function " in loc:
				func = loc.split(" in function ")[1].strip()
			item = {"check": cname, "description": desc, "location": loc or "", "function": func}
			if "unwinding assertion" in desc or ".unwind." in cname or "recursion unwinding" in desc:
				res.unwind_failed = True
			elif "unsupported_construct" in cname or "is not currently supported by Kani" in desc:
				res.unsupported.append(item)
			else:
				res.failed.append(item)
	m = re.search(r"Verification Time: ([\d.]+)s", text)
	if m:
		res.solver_s = float(m.group(1))
	res.cover_total = len(res.covers)
	res.cover_sat = sum(1 for v in res.covers.values() if v)
	if res.h.should_panic:
		# #[kani::should_panic]: Kani's verdict is SUCCESSFUL iff a panic is reachable and nothing else fails
		panics = [f for f in res.failed if f["check"].endswith(tuple(".assertion.%d" % i for i in range(1, 50)))]
		others = [f for f in res.failed if f not in panics]
		if verdict == "SUCCESSFUL":
			res.failed = []
			res.status = "success"
		else:
			res.failed = others or [{"check": "should_panic", "description": "expected panic is not reachable", "location": "", "function": res.h.full}]
			res.status = "failed"
		return
	if res.failed:
		res.status = "failed"
	elif res.unwind_failed:
		res.status = "inconclusive"
		res.reason = "unwinding assertion failed: loop bound too small for this tree"
	elif res.unsupported:
		res.status = "inconclusive"
		res.reason = "reachable unsupported construct: " + res.unsupported[0]["description"][:120]
	elif verdict == "SUCCESSFUL":
		if res.h.expect_cover and res.cover_total and res.cover_sat < res.cover_total:
			res.status = "inconclusive"
			bad = [d for d, v in res.covers.items() if not v]
			res.reason = "vacuous: cover not satisfiable: " + bad[0][:120]
		else:
			res.status = "success"
	else:
		res.status = "inconclusive"
		res.reason = "VERIFICATION FAILED without a failed property (see log)"


def kani_cmd(h, extra=()):
	cmd = ["cargo", "kani", "-p", h.crate, "--harness", h.full, "--exact", "-Z", "stubbing", "--target-dir", TARGET]
	cmd += list(h.kani_args) + list(extra) + os.environ.get("VERIF_KANI_ARGS", "").split()
	cb = list(h.cbmc_args)
	if getattr(h, "unwindset_resolved", None):
		cb += ["--unwindset", ",".join(f"{lid}:{n}" for lid, n in getattr(h, "unwindset_resolved", []))]
	if cb:
		if "unstable-options" not in cmd:
			cmd += ["-Z", "unstable-options"]
		cmd += ["--cbmc-args"] + cb
	return cmd


def find_goto_binary(h):
	"""The linked goto binary Kani leaves in the target dir for this harness (newest)."""
	mangled_tail = h.name
	best = None
	for root, _dirs, files in os.walk(os.path.join(TARGET, "kani")):
		for f in files:
			if f.endswith(".out") and not f.endswith(".symtab.out") and mangled_tail in f and f"{len(h.name)}{h.name}." in f.replace(".out", "."):
				p = os.path.join(root, f)
				if best is None or os.path.getmtime(p) > os.path.getmtime(best):
					best = p
	return best


def resolve_unwindset(h, log):
	"""Two-pass per-loop unwinding: ask CBMC for the loop ids of the linked goto binary."""
	g = find_goto_binary(h)
	if not g:
		return None
	r = sh(["cbmc", "--show-loops", g])
	ids = []
	cur = None
	for line in r.stdout.splitlines():
		m = re.match(r"^Loop (\S+):", line)
		if m:
			cur = m.group(1)
			for pat, n in h.unwindset:
				if re.search(pat, cur):
					ids.append((cur, n))
					break
	log.write(f"[vlib] unwindset resolved from {g}: {ids}\n")
	return ids


def run_harness(h, tier, timeout_default, mem_default):
	res = Result(h)
	os.makedirs(LOGS, exist_ok=True)
	logp = os.path.join(LOGS, f"{h.crate}-{h.name}.log")
	res.log = logp
	timeout = int(os.environ.get("VERIF_TIMEOUT", 0) or 0) or h.timeout or timeout_default
	mem_gb = float(os.environ.get("VERIF_MEM_GB", 0) or 0) or h.mem_gb or mem_default
	t0 = time.time()
	h.unwindset_resolved = None
	if h.unwindset:
		# pass 1: build + link only (1-second solver budget) to learn the loop ids of the linked goto binary
		with open(logp + ".pass1", "w") as log1:
			cmd = kani_cmd(h, ["-Z", "unstable-options", "--harness-timeout", "1"])
			run_limited(cmd, WS, log1, timeout, mem_gb)
			ids = resolve_unwindset(h, log1)
		if ids is None:
			res.reason = "could not resolve per-loop unwind bounds"
			res.wall_s = time.time() - t0
			return res
		h.unwindset_resolved = ids
	with open(logp, "w") as log:
		cmd = kani_cmd(h)
		log.write(f"[vlib] {' '.join(_q(c) for c in cmd)}\n")
		log.flush()
		rc = run_limited(cmd, WS, log, timeout, mem_gb)
	res.wall_s = time.time() - t0
	text = _read_tail(logp)
	parse_log(text, res)
	if res.status == "inconclusive" and not res.reason:
		res.reason = f"exit {rc}"
	if rc == 124 and res.status == "inconclusive":
		res.reason = f"timeout after {timeout}s"
	return res


def run_limited(cmd, cwd, log, timeout, mem_gb):
	"""Run cmd in its own session under an address-space limit; on timeout kill the whole process group (cbmc included)."""
	import resource
	import signal

	def pre():
		os.setsid()
		lim = int(mem_gb * 1024 ** 3)
		resource.setrlimit(resource.RLIMIT_AS, (lim, lim))

	p = subprocess.Popen(cmd, cwd=cwd, env=ENV, stdout=log, stderr=subprocess.STDOUT, preexec_fn=pre)
	try:
		return p.wait(timeout=timeout)
	except subprocess.TimeoutExpired:
		try:
			os.killpg(p.pid, signal.SIGKILL)
		except ProcessLookupError:
			pass
		p.wait()
		return 124


def _read_tail(p, limit=64 * 1024 * 1024):
	sz = os.path.getsize(p)
	with open(p, "rb") as f:
		if sz > limit:
			f.seek(sz - limit)
		return f.read().decode("utf-8", "replace")


def _q(s):
	if re.match(r"^[\w@%+=:,./-]+$", s):
		return s
	return "'" + s.replace("'", "'\\''") + "'"


# ---------------------------------------------------------------------------------------------
# replay through Kani's concrete playback (runs the harness natively against the real code; stubs
# are not applied in playback, so the real functions run)
# ---------------------------------------------------------------------------------------------
def replay_playback(h, prop, res):
	"""Returns (reproduced: bool|None, replay_path, detail)."""
	rdir = os.path.join(VERIF, "replay", prop)
	os.makedirs(rdir, exist_ok=True)
	logp = os.path.join(LOGS, f"{h.crate}-{h.name}.playback.log")
	h.unwindset_resolved = getattr(h, "unwindset_resolved", None)
	cmd = kani_cmd(h, ["-Z", "concrete-playback", "--concrete-playback=print"])
	timeout = (h.timeout or 600) * 2
	with open(logp, "w") as log:
		subprocess.run(["bash", "-c", f"exec timeout -k 5 {timeout} " + " ".join(_q(c) for c in cmd)], cwd=WS, env=ENV,
			stdout=log, stderr=subprocess.STDOUT)
	text = _read_tail(logp)
	tests = re.findall(r"```\n?(.*?)```", text, re.S)
	tests = [t for t in tests if "kani::concrete_playback_run" in t or "concrete_playback" in t]
	rpath = os.path.join(rdir, f"{h.name}.playback.rs")
	if not tests:
		_write(rpath, f"// no concrete playback test was produced for {h.full}\n// failed checks:\n" +
			"".join(f"//   {f['description']} @ {f['location']}\n" for f in res.failed))
		return None, rpath, "no concrete test produced"
	tests = [_sanitize_playback_test(t) for t in tests]
	body = "\n".join(tests)
	_write(rpath, f"// Concrete counterexample for harness {h.full} (property {prop}).\n"
		f"// Replay: paste into the module of the harness in an overlay copy and run\n"
		f"//   cargo kani playback -Z concrete-playback -p {h.crate} -- <test name>\n"
		f"// failed checks:\n" + "".join(f"//   {f['description']} @ {f['location']}\n" for f in res.failed) + body + "\n")
	reproduced, detail = native_playback(h, body, rpath + ".native.log")
	return reproduced, rpath, detail


def _sanitize_playback_test(t):
	"""Kani prints a multi-line cover!/assert! expression verbatim into the doc comment of the generated test: every line of
	the header (everything before #[test]) must be a doc comment, or the test does not compile."""
	if "#[test]" not in t:
		return t
	head, rest = t.split("#[test]", 1)
	lines = [(l if (not l.strip() or l.lstrip().startswith("///")) else "/// " + l.strip()) for l in head.split("\n")]
	return "\n".join(lines) + "#[test]" + rest


def native_playback(h, body, native_log):
	"""Run generated concrete-playback tests natively (real functions, no stubs) in a private copy of the overlay workspace.
	Returns (reproduced: bool|None, detail)."""
	rpath = None
	# append the test(s) to the harness' module file inside a private copy of the workspace
	rws = os.path.join(WORK, f"replay-ws-{os.getpid()}-{h.name}")
	try:
		sh(["rsync", "-a", "--delete", WS + "/", rws + "/"])
		mounted = {"verif_server": [os.path.join("versatiles", "src", "tools", "server")],
			"verif_conv": [os.path.join("versatiles_container", "src", "container", "converter.rs"), os.path.join("versatiles_container", "src", "container", "tile_converter.rs")]}
		for rel in mounted.get(h.crate, []):
			# the mounted files' own #[cfg(test)] modules need items / dev-dependencies the harness crate does not have
			top = os.path.join(rws, rel)
			paths = [top] if os.path.isfile(top) else [os.path.join(r, f) for r, _d, fs in os.walk(top) for f in fs if f.endswith(".rs")]
			for fp in paths:
				_write(fp, re.sub(r"#\[cfg\(test\)\]\s*\nmod tests", "#[cfg(any())]\nmod tests", _read(fp)))
		modfile = harness_source_file(h, rws)
		if not modfile:
			return None, "harness source file not found for playback"
		src = _read(modfile)
		names = re.findall(r"fn (kani_concrete_playback_\w+)", body)
		if h.path.endswith("kani_harness"):
			# in-file harness module: insert before the final closing brace of the appended module
			idx = src.rstrip().rfind("}")
			src = src[:idx] + "\n" + body + "\n}\n"
		else:
			src = src + "\n" + body + "\n"
		_write(modfile, src)
		out = []
		reproduced = False
		for profile in ("dev",):
			# --lib: unit tests only (the crates' doctests need dev-dependencies the overlay copy does not build and would fail)
			cmd = ["cargo", "kani", "playback", "-Z", "concrete-playback", "-p", h.crate, "--lib"]
			if profile == "release":
				cmd += ["--release"]
			# one generated test per cover / failed check: run them all, any native failure reproduces the counterexample
			cmd += ["--", f"kani_concrete_playback_{h.name}"]
			env = dict(ENV)
			env["CARGO_TARGET_DIR"] = os.path.join(WORK, "target-playback")
			r = subprocess.run(cmd, cwd=rws, env=env, stdout=subprocess.PIPE, stderr=subprocess.STDOUT, text=True, timeout=3600)
			tail = "\n".join(l for l in r.stdout.splitlines() if re.search(r"panicked|assertion|test result|running \d+ test|^test |abnormal|error(:|\[)", l))[-4000:] + "\n...\n" + r.stdout[-1500:]
			failed = bool(re.search(r"test result: FAILED|panicked at|\bFAILED\b|test exited abnormally|SIGABRT|SIGSEGV|memory allocation of \d+ bytes failed|stack overflow", r.stdout)) and "could not compile" not in r.stdout
			passed = bool(re.search(r"test result: ok. [1-9]", r.stdout))
			out.append(f"--- {profile}: {'REPRODUCED' if failed else ('passes' if passed else 'no result')}\n{tail}\n")
			if failed:
				reproduced = True
		_write(native_log, "\n".join(out))
		return reproduced, "native playback (dev profile: overflow checks on)"
	except Exception as e:  # noqa
		return None, f"playback error: {e}"
	finally:
		shutil.rmtree(rws, ignore_errors=True)


def harness_source_file(h, ws):
	"""Locate the file in the overlaid workspace that contains the harness function."""
	roots = [os.path.join(ws, h.crate, "src")] + [os.path.join(ws, d, "src") for d in sorted(os.listdir(ws)) if os.path.isdir(os.path.join(ws, d, "src")) and d != h.crate]
	for root, _d, files in (x for r in roots for x in os.walk(r)):
		for f in files:
			if f.endswith(".rs"):
				p = os.path.join(root, f)
				try:
					if re.search(r"\b" + re.escape(h.name) + r"\b", _read(p)):
						return p
				except Exception:
					pass
	return None


# ---------------------------------------------------------------------------------------------
# known findings
# ---------------------------------------------------------------------------------------------
def load_known():
	p = os.path.join(VERIF, "known_findings.json")
	if not os.path.exists(p):
		return {"findings": [], "fixed": []}
	return json.load(open(p))


def match_known(known, prop, h, f):
	for k in known.get("findings", []):
		if k["property"] != prop:
			continue
		if k.get("harness") and not re.fullmatch(k["harness"], h.name):
			continue
		if k.get("function") and not re.search(k["function"], f["function"]):
			continue
		if k.get("description") and not re.search(k["description"], f["description"]):
			continue
		return k
	return None


# ---------------------------------------------------------------------------------------------
# main entry: run one property
# ---------------------------------------------------------------------------------------------
def run_property(prop, harnesses, tier, meta, extra=None):
	"""meta: dict(level, assumptions, trusted_base, out_of_claim, ...)."""
	t0 = time.time()
	seed = int(os.environ.get("VERIF_SEED", "0") or 0)
	sel = [h for h in harnesses if tier == "thorough" or h.tier == "quick"]
	only = os.environ.get("VERIF_ONLY")
	if only:
		sel = [h for h in sel if re.search(only, h.name)]
	# seed only permutes scheduling
	if seed:
		import random
		random.Random(seed).shuffle(sel)
	timeout_default = 420 if tier == "quick" else 2400
	mem_default = 12 if tier == "quick" else 24
	workers = int(os.environ.get("VERIF_JOBS", "0") or 0) or min(10, max(1, len(sel)))
	try:
		prepare_ws()
	except OverlayError as e:
		print(f"INCONCLUSIVE property={prop} overlay did not apply: {e}")
		write_evidence(prop, tier, seed, [], meta, time.time() - t0, 0, [f"overlay did not apply: {e}"], [])
		return 2
	# warm build (untimed for the harnesses): on a cold cache the dependency graph (Kani's std, ~200 crates) takes minutes to
	# build, and harnesses waiting on cargo's build lock would otherwise burn their own time-outs. One codegen-only run per
	# crate brings the dependencies up to date; the per-harness runs then only recompile the crate under test.
	for crate in sorted({h.crate for h in sel}):
		h0 = next(h for h in sel if h.crate == crate)
		os.makedirs(LOGS, exist_ok=True)
		with open(os.path.join(LOGS, f"{crate}-warmup.log"), "w") as wlog:
			wrc = run_limited(kani_cmd(h0, ["--only-codegen"]), WS, wlog, 3600, 24)
		if wrc == 124:
			print(f"INCONCLUSIVE property={prop} warm-up build of {crate} did not finish in 3600 s")
	results = []
	if sel:
		with ThreadPoolExecutor(max_workers=workers) as ex:
			futs = [ex.submit(run_harness, h, tier, timeout_default, mem_default) for h in sel]
			for f in futs:
				results.append(f.result())
	known = load_known()
	violations = []
	known_hits = []
	inconclusive = []
	for r in results:
		if r.status == "inconclusive":
			inconclusive.append(f"{r.h.name}: {r.reason}")
		elif r.status == "failed":
			new = []
			for f in r.failed:
				k = match_known(known, prop, r.h, f)
				if k:
					known_hits.append((k, r, f))
				else:
					new.append(f)
			if new:
				violations.append((r, new))
	rc = 0
	printed = set()
	for k, r, f in known_hits:
		line = f"KNOWN-FINDING: property={prop} {k['id']}: {k['what']}"
		if line not in printed:
			print(line)
			printed.add(line)
	nviol = 0
	replayed = 0
	for r, new in violations:
		if replayed >= 2 and nviol > 0:
			# one reproduced counterexample decides the check; further failing harnesses are listed without a native replay
			print(f"ALSO-FAILED property={prop} harness={r.h.name} (not replayed) " + "; ".join(sorted({f['description'] for f in new}))[:300])
			continue
		replayed += 1
		if r.h.replay == "playback":
			rep, rpath, detail = replay_playback(r.h, prop, r)
		else:
			rep, rpath, detail = None, "", "no replay configured"
		desc = "; ".join(sorted({f"{f['description']} in {f['function'] or f['location']}" for f in new}))[:600]
		if rep is True or (rep is None and r.h.replay == "model"):
			print(f"VIOLATION property={prop} replay={rpath} harness={r.h.name} {desc}")
			nviol += 1
			rc = 1
		elif rep is None:
			# counterexample could not be replayed mechanically: report, flagged as such
			print(f"VIOLATION property={prop} replay={rpath} harness={r.h.name} (solver counterexample; native replay unavailable: {detail}) {desc}")
			nviol += 1
			rc = 1
		else:
			inconclusive.append(f"{r.h.name}: solver counterexample did not reproduce natively ({detail}): {desc}")
	extra_out = None
	if extra is not None:
		# a second engine contributes queries of its own (e.g. MIR -> SMT), merged into the same verdict and evidence
		extra_out = extra(prop, tier)
		for line in extra_out.get("lines", []):
			print(line)
		nviol += extra_out.get("violations", 0)
		if extra_out.get("rc") == 1:
			rc = 1
		inconclusive += extra_out.get("inconclusive", [])
	for i in inconclusive:
		print(f"INCONCLUSIVE property={prop} {i}")
	if inconclusive and rc == 0:
		rc = 2
	write_evidence(prop, tier, seed, results, meta, time.time() - t0, nviol, inconclusive, known_hits, extra_out)
	ok = sum(1 for r in results if r.status == "success")
	xq = (extra_out or {}).get("queries", [])
	smt = f" smt-queries={len(xq)} as-expected={sum(1 for q in xq if q['verdict'] == q['expected'])}" if extra_out is not None else ""
	print(f"[{prop}] tier={tier} harnesses={len(results)} proven={ok}{smt} known-findings={len(printed)} violations={nviol} "
		f"inconclusive={len(inconclusive)} wall={time.time() - t0:.0f}s")
	return rc


def evidence_dir():
	"""/verif/evidence for a registered run against /repo; a scratch directory for development runs (harness filter, scratch
	repository copy, unregistered harnesses, extra Kani arguments), which must never overwrite the evidence of a real run."""
	dev = any(os.environ.get(k) for k in ("VERIF_ONLY", "VERIF_DEV_ALL", "VERIF_KANI_ARGS")) or os.path.realpath(REPO) != "/repo"
	d = os.path.join(WORK, "evidence-dev") if dev else os.path.join(VERIF, "evidence")
	os.makedirs(d, exist_ok=True)
	return d


def write_evidence(prop, tier, seed, results, meta, wall, nviol, inconclusive, known_hits, extra_out=None):
	obligations = sum(r.checks for r in results)
	discharged = sum(r.checks - len(r.failed) for r in results if r.status in ("success", "failed"))
	nontrivial = sum(1 for r in results if r.status in ("success", "failed") and (r.cover_total == 0 or r.cover_sat > 0))
	samples = []
	for r in results:
		samples.append({
			"harness": r.h.full, "crate": r.h.crate, "status": r.status, "reason": r.reason,
			"symbolic_input": r.h.sample, "bounds": r.h.bounds, "functions_encoded": r.h.funcs,
			"checks": r.checks, "failed_checks": [f"{f['description']} @ {f['function']}" for f in r.failed][:8],
			"covers_satisfied": f"{r.cover_sat}/{r.cover_total}", "cover_conditions": list(r.covers.keys())[:6],
			"solver_s": round(r.solver_s, 2), "wall_s": round(r.wall_s, 1), "extra_stubs": r.h.stubs,
		})
	funcs = sorted({f for r in results for f in r.h.funcs})
	xq = (extra_out or {}).get("queries", [])
	xgood = [q for q in xq if q["verdict"] == q["expected"]]
	if extra_out:
		samples += [{"engine": "mir-smt", **x} for x in extra_out.get("samples", [])]
		funcs += extra_out.get("funcs", [])
		obligations += len(xq)
		discharged += len(xgood)
		nontrivial += len({(q.get("flags"), q["query"]) for q in xgood})
	ev = {
		"property_id": prop,
		"tier": tier,
		"seed": seed,
		"level": meta.get("level", "model_checking"),
		"coverage": {
			"evaluations": (max(1, len(results)) if results else 0) + len(xq),
			"distinct_nontrivial": nontrivial,
			"rule": "one solver query (Kani/CBMC, CaDiCaL) per harness instance over kani::any() inputs; an instance is "
				"non-trivial when it reached a verdict and at least one of its reachability covers was satisfied "
				"(a vacuous, timed-out or out-of-memory instance does not count)",
			"samples": samples,
			"obligations": obligations,
			"discharged": discharged,
			"checker_cmd": "cargo kani -p <crate> --harness <h> --exact -Z stubbing (CBMC 6.11.0, cadical), regenerated from /repo's working tree",
			"trusted_base": ["rustc + Kani 0.68 codegen", "CBMC 6.11.0", "CaDiCaL"] + meta.get("trusted_base", []),
			"functions_encoded": funcs,
			"solver_seconds": round(sum(r.solver_s for r in results) + sum(q.get("seconds", 0) for q in xq), 1),
			"smt_queries": xq,
			"inconclusive": inconclusive,
			"known_findings_hit": sorted({k["id"] for k, _r, _f in known_hits}),
			"outside_claim": meta.get("out", []),
			"repo_state": repo_fingerprint(),
			"exhaustive": False,
		},
		"assumptions": STD_STUBS + meta.get("assumptions", []),
		"wall_s": round(wall, 1),
		"violations": nviol,
	}
	with open(os.path.join(evidence_dir(), f"{prop}.json"), "w") as f:
		json.dump(ev, f, indent=1)
